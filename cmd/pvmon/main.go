// pvmon is the orchestrator of the runtime monitors for poryscript.
package main

import (
	"fmt"
	"os"
	"sort"
	"strconv"

	"verif.local/pvmon/internal/checks"
	"verif.local/pvmon/internal/h"
)

func seed() int64 {
	if s := os.Getenv("VERIF_SEED"); s != "" {
		if v, err := strconv.ParseInt(s, 10, 64); err == nil {
			return v
		}
	}
	return 1
}

func main() {
	if d := os.Getenv("VERIF_DIR"); d != "" {
		h.VerifDir = d
	}
	if d := os.Getenv("VERIF_REPO_DIR"); d != "" {
		h.RepoDir = d
	}
	if len(os.Args) < 2 {
		fmt.Println("usage: pvmon <Cxx> quick|thorough | replay <path> | list | worker ...")
		os.Exit(2)
	}
	switch os.Args[1] {
	case "list":
		var ids []string
		for id := range checks.Registry {
			ids = append(ids, id)
		}
		sort.Strings(ids)
		for _, id := range ids {
			fmt.Println(id)
		}
		return
	case "replay":
		if len(os.Args) < 3 {
			fmt.Println("usage: pvmon replay <path>")
			os.Exit(2)
		}
		os.Exit(checks.Replay(os.Args[2]))
	case "worker":
		os.Exit(checks.Worker(os.Args[2:]))
	}
	prop := os.Args[1]
	tier := "quick"
	if len(os.Args) > 2 {
		tier = os.Args[2]
	}
	if t := os.Getenv("VERIF_TIER"); t != "" && len(os.Args) <= 2 {
		tier = t
	}
	fn, ok := checks.Registry[prop]
	if !ok {
		fmt.Printf("INCONCLUSIVE property=%s reason=no such check\n", prop)
		os.Exit(2)
	}
	ctx := h.NewCtx(prop, tier, seed())
	os.Exit(fn(ctx))
}
