#!/usr/bin/env python3
import json,sys
for f in sys.argv[1:]:
    v=json.load(open(f))
    print('=====',f, v.get('key'))
    print(v['message'][:2500])
    print('--- source'); print(v.get('source',''))
    d=v.get('details') or {}
    for kk,vv in d.items():
        print('---',kk); print(vv if isinstance(vv,str) else json.dumps(vv,indent=1)[:3000])
