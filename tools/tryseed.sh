#!/bin/bash
# tools/tryseed.sh <patch> <demo_run.sh|-> <check> [<check>...]
# Applies a seeded change to the scratch worktree /tmp/mut_repo (created from /repo HEAD if missing),
# verifies it builds and passes the existing tests, runs the demonstration, runs the given quick checks
# against it and reports which fire. The scratch tree is reset afterwards.
set -u
export GOFLAGS=-mod=mod GOPROXY=off GOSUMDB=off GOTOOLCHAIN=local
PATCH="$1"; DEMO="$2"; shift 2
M=/tmp/mut_repo
[ -d "$M" ] || git -C /repo worktree add -q --detach "$M" HEAD
git -C "$M" checkout -q --detach "$(git -C /repo rev-parse HEAD)" 2>/dev/null
git -C "$M" checkout -q -- . ; git -C "$M" clean -fdq
if [ "$DEMO" != "-" ]; then
  if bash "$DEMO" "$M" >/dev/null 2>&1; then echo "demo on clean tree: pass (ok)"; else echo "demo on clean tree: FAILS (bad demo)"; fi
  git -C "$M" checkout -q -- . ; git -C "$M" clean -fdq
fi
if ! git -C "$M" apply "$PATCH"; then echo "PATCH DOES NOT APPLY"; exit 3; fi
( cd "$M" && go build ./... && go build -tags verif ./... ) || { echo "DOES NOT BUILD"; git -C "$M" checkout -q -- .; exit 3; }
if ( cd "$M" && go test -count=1 ./... >/tmp/tryseed.test.$$ 2>&1 ); then echo "existing tests: pass"; else echo "existing tests: FAIL"; tail -5 /tmp/tryseed.test.$$; fi
rm -f /tmp/tryseed.test.$$
if [ "$DEMO" != "-" ]; then
  if bash "$DEMO" "$M" >/dev/null 2>&1; then echo "demo with patch: passes (defect NOT shown)"; else echo "demo with patch: fails (defect shown)"; fi
  git -C "$M" status --short | grep -v '^ M' | head -3
fi
cd /verif
for c in "$@"; do
  out=$(VERIF_REPO="$M" ./run "$c" quick 2>&1); rc=$?
  if [ $rc -eq 1 ]; then echo "$c: CAUGHT  $(echo "$out" | grep -A1 '^VIOLATION' | sed -n 2p | cut -c1-200)"; elif [ $rc -eq 0 ]; then echo "$c: silent"; else echo "$c: rc=$rc $(echo "$out" | grep INCONCLUSIVE | head -1 | cut -c1-200)"; fi
done
git -C "$M" checkout -q -- . ; git -C "$M" clean -fdq
