#!/usr/bin/env python3
"""Round 3 (site-driven seeds in /tmp/seed3_<area>/out): same verification as tools/collectseeds.py; the
property each change violates is taken from its meta.json; stored as seeded/R3-<area>-<A|B>/."""
import json, os, re, shutil, subprocess, sys
sys.path.insert(0, os.path.dirname(os.path.abspath(__file__)))
import collectseeds as cs

ROUND = os.environ.get("SEED_ROUND", "3")
AREAS = {"3": ["main", "lexer", "lists", "texts", "headers", "dataemit", "branchrender", "constauto"],
         "4": ["emit2site", "parse2emit", "stateflow", "options", "history", "lookahead", "bounds", "unicode", "pory", "mapscr"],
         "5": ["refactor", "perf", "gopitfalls", "feature", "errpath", "optonly", "noopt", "rareforms", "configs", "scale"],
         "6": ["chlog3", "chlog2b", "chlog2a", "twins", "order", "tokens", "contract", "output"],
         "7": ["C02", "C05", "C11", "C14", "C15", "C16", "C19", "C20"],
         "8": ["C01", "C03", "C04", "C06", "C07", "C08", "C09", "C10", "C12", "C13", "C17", "C18"],
         "9": ["C04", "C05", "C08", "C12", "C13", "C16", "C17", "C18", "C19", "C20"],
         "10": ["C01", "C02", "C03", "C06", "C07", "C09", "C10", "C11", "C14", "C15"],
         "11": ["C04", "C05", "C08", "C12", "C13", "C16", "C17", "C18", "C19", "C20"],
         "12": ["C01", "C02", "C03", "C06", "C07", "C09", "C10", "C11", "C14", "C15"],
         "13": ["C04", "C05", "C08", "C11", "C12", "C13", "C14", "C16", "C17", "C19"],
         "14": ["C01", "C02", "C03", "C06", "C07", "C09", "C10", "C15", "C18", "C20"],
         "15": ["C04", "C05", "C08", "C11", "C12", "C13", "C14", "C16", "C17", "C19"]}[ROUND]
EXTRA = {"main": ["C17", "C18"], "lexer": ["C19"], "lists": ["C14", "C06"], "texts": ["C06"], "headers": ["C08"], "dataemit": [], "branchrender": ["C01"], "constauto": ["C11"]}

def main():
    only = sys.argv[1:]
    for a in AREAS:
        for v in "AB":
            name = f"R{ROUND}-{a}-{v}"
            if only and not any(o in name for o in only):
                continue
            src = f"/tmp/seed{ROUND}_{a}/out"
            patch = f"{src}/{v}.patch"
            if not os.path.exists(patch):
                print(name, "missing"); continue
            meta = json.load(open(f"{src}/{v}_meta.json"))
            m = re.search(r"C\d\d", str(meta.get("property")))
            pid = m.group(0) if m else "C01"
            checks = list(dict.fromkeys([pid] + cs.RELATED.get(pid, []) + EXTRA.get(a, []) + (["C17", "C18", "C04"] if int(ROUND) >= 4 else [])))
            head = cs.reset()
            demo = f"{src}/{v}_demo/run.sh"
            ver = {"repo_head": head}
            ver["demo_passes_without_change"] = cs.sh(f"bash {demo} {cs.M}").returncode == 0
            cs.reset()
            ver["applies"] = cs.sh(f"git -C {cs.M} apply {patch}").returncode == 0
            if not ver["applies"]:
                print(name, "DOES NOT APPLY"); continue
            ver["builds"] = cs.sh("go build ./... && go build -tags verif ./...", cwd=cs.M).returncode == 0
            ver["existing_tests_pass"] = cs.sh("go test -count=1 ./...", cwd=cs.M).returncode == 0
            ver["demo_fails_with_change"] = cs.sh(f"bash {demo} {cs.M}").returncode != 0
            cs.sh(f"git -C {cs.M} clean -fdq")
            caught = {}
            for c in checks:
                r = cs.sh(f"VERIF_REPO={cs.M} ./run {c} quick", cwd="/verif")
                first = ""
                lines = r.stdout.splitlines()
                for i, l in enumerate(lines):
                    if l.startswith("VIOLATION") and i + 1 < len(lines):
                        first = lines[i + 1].strip()[:300]; break
                caught[c] = {"verdict": {0: "silent", 1: "VIOLATION", 2: "inconclusive"}.get(r.returncode, str(r.returncode)), "first_witness": first}
            ok = all(ver[k] for k in ("demo_passes_without_change", "builds", "existing_tests_pass", "demo_fails_with_change"))
            print(name, pid, "confirmed" if ok else "NOT CONFIRMED", {c: x["verdict"] for c, x in caught.items()}, flush=True)
            if not ok:
                print("   ", ver); continue
            dst = f"/verif/seeded/{name}"
            shutil.rmtree(dst, ignore_errors=True); os.makedirs(dst)
            shutil.copy(patch, f"{dst}/patch.diff"); shutil.copytree(f"{src}/{v}_demo", f"{dst}/demo")
            out = {"id": name, "property": pid, "area": a, "summary": meta.get("summary"), "needs_to_manifest": meta.get("needs_to_manifest"), "witness": meta.get("witness"),
                   "why_tests_pass": meta.get("why_tests_pass"),
                   "origin": f"round {ROUND}: written by an independent sub-agent assigned a code area / theme (it saw the twenty property texts and a scratch worktree, nothing from /verif)",
                   "what_was_run": [f"git apply patch.diff (scratch worktree at /repo HEAD {head[:7]})", "go build ./... && go build -tags verif ./...", "go test -count=1 ./...",
                                    "demo/run.sh <repo> on the clean tree and with the change", "VERIF_REPO=<scratch> ./run <check> quick for: " + ", ".join(checks)],
                   "verified": ver, "checks": caught, "caught_by": [c for c, x in caught.items() if x["verdict"] == "VIOLATION"]}
            json.dump(out, open(f"{dst}/meta.json", "w"), indent=1)
    cs.reset()

if __name__ == "__main__":
    main()
