#!/bin/bash
# tools/coverage.sh [checks...]: which statements of /repo do the quick-tier workloads reach?
# Builds the harness with -cover for the poryscript packages, runs the given checks (default: all),
# and prints per-function coverage of /repo plus the uncovered lines (a guide for workload blind spots).
set -u
cd "$(dirname "$0")/.."
export GOFLAGS=-mod=mod GOPROXY=off GOSUMDB=off GOTOOLCHAIN=local
CH="${@:-C01 C02 C03 C04 C05 C06 C07 C08 C09 C10 C11 C12 C13 C14 C15 C16 C17 C18 C19 C20}"
D="$PWD/.build/cover"; rm -rf "$D"; mkdir -p "$D/data"
go build -cover -coverpkg=./...,github.com/huderlem/poryscript/... -tags verif -o "$D/pvmon.cover" ./cmd/pvmon || exit 2
(cd /repo && go build -o "$D/poryscript" .) || exit 2
export PORYSCRIPT_BIN="$D/poryscript" VERIF_DIR="$PWD" VERIF_REPO_DIR=/repo VERIF_SCRATCH_OUT="$D/out" GOCOVERDIR="$D/data"
for c in $CH; do "$D/pvmon.cover" $c quick >/dev/null 2>&1; echo "$c rc=$?"; done
go tool covdata textfmt -i="$D/data" -o "$D/cover.txt"
grep -E "^mode:|huderlem/poryscript" "$D/cover.txt" > "$D/cover.repo.txt"; (cd /repo && go tool cover -func="$D/cover.repo.txt") > "$D/func.txt"
tail -1 "$D/func.txt"
echo "functions below 100%:"; grep -v "100.0%" "$D/func.txt" | grep -v "^total" | sort -k3 -n | head -60
