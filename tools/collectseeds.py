#!/usr/bin/env python3
"""Verifies the seeded changes written by independent sub-agents (in /tmp/seed_Cxx/out) and stores the
confirmed ones under /verif/seeded/<Cxx>-<A|B>/ (patch.diff, demo/, meta.json).

For each change: applies it to the scratch worktree /tmp/mut_repo (reset to /repo HEAD), checks that it
builds (also with -tags verif), that the 42 existing tests pass, that the demonstration passes on the clean
tree and fails with the change; then runs the property's own check (and related ones) in the quick tier
against the scratch tree and records which report a VIOLATION.
"""
import json, os, shutil, subprocess, sys

ENV = dict(os.environ, GOFLAGS="-mod=mod", GOPROXY="off", GOSUMDB="off", GOTOOLCHAIN="local")
M = "/tmp/mut_repo"
RELATED = {"C01": ["C01", "C04", "C05"], "C02": ["C02"], "C03": ["C03", "C01"], "C04": ["C04", "C01"], "C05": ["C05", "C01"], "C06": ["C06", "C04"],
           "C07": ["C07"], "C08": ["C08", "C06"], "C09": ["C09", "C12"], "C10": ["C10", "C19"], "C11": ["C11", "C06"], "C12": ["C12"],
           "C13": ["C13", "C14"], "C14": ["C14", "C13"], "C15": ["C15"], "C16": ["C16"], "C17": ["C17"], "C18": ["C18"], "C19": ["C19"], "C20": ["C20"]}


def sh(cmd, cwd=None):
    return subprocess.run(cmd, shell=True, cwd=cwd, env=ENV, stdout=subprocess.PIPE, stderr=subprocess.STDOUT, text=True, errors="replace")


def reset():
    head = sh("git -C /repo rev-parse HEAD").stdout.strip()
    if not os.path.isdir(M):
        sh(f"git -C /repo worktree add -q --detach {M} HEAD")
    sh(f"git -C {M} reset -q --hard; git -C {M} checkout -q --detach {head}; git -C {M} clean -fdq")
    return head


def main():
    only = sys.argv[1:]
    prefix = os.environ.get("SEED_PREFIX", "/tmp/seed_")   # round 2: /tmp/seed2_
    rename = {"A": "A", "B": "B"}
    if os.environ.get("SEED_ROUND") == "2":
        rename = {"A": "C", "B": "D"}
    for n in range(1, 21):
        pid = f"C{n:02d}"
        for v in "AB":
            name = f"{pid}-{rename[v]}"
            if only and not any(o in name for o in only):
                continue
            src = f"{prefix}{pid}/out"
            patch = f"{src}/{v}.patch"
            if not os.path.exists(patch):
                print(name, "missing"); continue
            head = reset()
            meta = json.load(open(f"{src}/{v}_meta.json"))
            demo = f"{src}/{v}_demo/run.sh"
            ver = {"repo_head": head}
            ver["demo_passes_without_change"] = sh(f"bash {demo} {M}").returncode == 0
            reset()
            a = sh(f"git -C {M} apply {patch}")
            ver["applies"] = a.returncode == 0
            if not ver["applies"]:
                print(name, "DOES NOT APPLY"); continue
            ver["builds"] = sh("go build ./... && go build -tags verif ./...", cwd=M).returncode == 0
            ver["existing_tests_pass"] = sh("go test -count=1 ./...", cwd=M).returncode == 0
            ver["demo_fails_with_change"] = sh(f"bash {demo} {M}").returncode != 0
            sh(f"git -C {M} clean -fdq")
            caught = {}
            for c in RELATED[pid]:
                r = sh(f"VERIF_REPO={M} ./run {c} quick", cwd="/verif")
                first = ""
                lines = r.stdout.splitlines()
                for i, l in enumerate(lines):
                    if l.startswith("VIOLATION") and i + 1 < len(lines):
                        first = lines[i + 1].strip()[:300]
                        break
                caught[c] = {"verdict": {0: "silent", 1: "VIOLATION", 2: "inconclusive"}.get(r.returncode, str(r.returncode)), "first_witness": first}
            ok = all(ver[k] for k in ("demo_passes_without_change", "builds", "existing_tests_pass", "demo_fails_with_change"))
            print(name, "confirmed" if ok else "NOT CONFIRMED", {c: x["verdict"] for c, x in caught.items()}, flush=True)
            if not ok:
                print("   ", ver); continue
            dst = f"/verif/seeded/{name}"
            shutil.rmtree(dst, ignore_errors=True)
            os.makedirs(dst)
            shutil.copy(patch, f"{dst}/patch.diff")
            shutil.copytree(f"{src}/{v}_demo", f"{dst}/demo")
            out = {"id": name, "property": pid, "summary": meta.get("summary"), "needs_to_manifest": meta.get("needs_to_manifest"),
                   "witness": meta.get("witness"), "why_tests_pass": meta.get("why_tests_pass"),
                   "origin": "written by an independent sub-agent that saw only the property text and a scratch worktree of the repository",
                   "what_was_run": [f"git apply patch.diff (scratch worktree at /repo HEAD {head[:7]})", "go build ./... && go build -tags verif ./...", "go test -count=1 ./...",
                                    "demo/run.sh <repo> on the clean tree and with the change", "VERIF_REPO=<scratch> ./run <check> quick for: " + ", ".join(RELATED[pid])],
                   "verified": ver, "checks": caught,
                   "caught_by": [c for c, x in caught.items() if x["verdict"] == "VIOLATION"]}
            json.dump(out, open(f"{dst}/meta.json", "w"), indent=1)
    reset()


if __name__ == "__main__":
    main()
