#!/bin/bash
# tools/sweep.sh <tier> <seed> [checks...]: run checks, print one line each (exit status and first violation)
T="$1"; S="$2"; shift 2
CH="${@:-C01 C02 C03 C04 C05 C06 C07 C08 C09 C10 C11 C12 C13 C14 C15 C16 C17 C18 C19 C20}"
cd /verif
for c in $CH; do
  t0=$(date +%s); out=$(VERIF_SEED=$S ./run $c $T 2>&1); rc=$?; t1=$(date +%s)
  echo "$c $T seed=$S rc=$rc $((t1-t0))s $(echo "$out" | grep -A1 -E '^VIOLATION|^INCONCLUSIVE' | head -2 | tr '\n' ' ' | cut -c1-260)"
done
