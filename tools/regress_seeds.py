#!/usr/bin/env python3
"""Regression pass over kept seeded changes: re-applies each change (or a sample: REGRESS_EVERY=n takes every
n-th, REGRESS_OFFSET=k shifts the start) to the scratch worktree /tmp/mut_repo and runs only the quick check of
the property the change violates (plus, where the recorded verdicts say the own check never caught it, the checks
that did). Prints one line per change and writes seeded/REGRESSION.json; nothing in seeded/<id>/ is rewritten.

Patches written against an older /repo HEAD may no longer apply (the fix commits touched the same lines): those are
reported as 'does-not-apply' and not counted."""
import glob, json, os, sys
sys.path.insert(0, os.path.dirname(os.path.abspath(__file__)))
import collectseeds as cs


def main():
    every = int(os.environ.get("REGRESS_EVERY", "1"))
    off = int(os.environ.get("REGRESS_OFFSET", "0"))
    metas = sorted(glob.glob("/verif/seeded/*/meta.json"))
    out = {}
    for i, mf in enumerate(metas):
        if (i + off) % every != 0:
            continue
        m = json.load(open(mf))
        d = os.path.dirname(mf)
        cs.reset()
        if cs.sh(f"git -C {cs.M} apply {d}/patch.diff").returncode != 0:
            print(m["id"], "does-not-apply", flush=True)
            out[m["id"]] = {"applies": False}
            continue
        if cs.sh("go build ./... && go build -tags verif ./...", cwd=cs.M).returncode != 0:
            print(m["id"], "does-not-build", flush=True)
            out[m["id"]] = {"applies": True, "builds": False}
            continue
        checks = [m["property"]]
        if m["property"] not in m.get("caught_by", []):
            checks += [c for c in m.get("caught_by", []) if c not in checks]
        res = {}
        for c in checks:
            r = cs.sh(f"VERIF_REPO={cs.M} ./run {c} quick", cwd="/verif")
            res[c] = {0: "silent", 1: "VIOLATION", 2: "inconclusive"}.get(r.returncode, str(r.returncode))
        was = m["property"] in m.get("caught_by", [])
        now = res[m["property"]] == "VIOLATION"
        tag = "ok" if now else ("REGRESSION" if was else "still-not-own")
        print(m["id"], m["property"], res, tag, flush=True)
        out[m["id"]] = {"applies": True, "builds": True, "verdicts": res, "own_check_caught_before": was, "own_check_catches_now": now}
    cs.reset()
    json.dump(out, open("/verif/seeded/REGRESSION.json", "w"), indent=1)
    n = sum(1 for v in out.values() if v.get("builds"))
    print(f"{n} changes re-run; own check catches {sum(1 for v in out.values() if v.get('own_check_catches_now'))}; regressions: "
          f"{[k for k, v in out.items() if v.get('builds') and v['own_check_caught_before'] and not v['own_check_catches_now']]}")


if __name__ == "__main__":
    main()
