#!/bin/bash
# tools/evalseeds.sh <Cxx> [extra checks...]: run tryseed for /tmp/seed_Cxx/out/{A,B}.patch against check Cxx (+extras)
P="$1"; shift
for v in A B; do
  echo "### $P/$v: $(python3 -c "import json;print(json.load(open('/tmp/seed_$P/out/${v}_meta.json'))['summary'][:160])" 2>/dev/null)"
  /verif/tools/tryseed.sh /tmp/seed_$P/out/$v.patch /tmp/seed_$P/out/${v}_demo/run.sh $P "$@" 2>&1 | grep -v "^$"
done
