#!/usr/bin/env python3
"""Regenerates seeded/INDEX.md and the seeded-change table in DESIGN.md from seeded/*/meta.json."""
import json, glob, re
rows, idx = [], []
for d in sorted(glob.glob('/verif/seeded/*/meta.json')):
    m = json.load(open(d))
    caught = [c for c, x in m['checks'].items() if x['verdict'] == 'VIOLATION']
    other = [f"{c} ({x['verdict']})" for c, x in m['checks'].items() if x['verdict'] != 'VIOLATION']
    summ = (m['summary'] or '').replace('\n', ' ').replace('|', '/')
    need = (m['needs_to_manifest'] or '').replace('\n', ' ').replace('|', '/')
    rows.append(f"| {m['id']} | {summ[:150]} | {', '.join(caught) or '-'} | {', '.join(other) or '-'} |")
    idx.append(f"| {m['id']} | {summ[:200]} | {need[:200]} | {', '.join(caught) or '-'} | {', '.join(other) or '-'} |")
table = "| change | summary | caught by (quick) | not caught by |\n|---|---|---|---|\n" + "\n".join(rows)
p = '/verif/DESIGN.md'
s = open(p).read()
s = re.sub(r'<!-- SEED-TABLE-BEGIN -->.*<!-- SEED-TABLE-END -->', '<!-- SEED-TABLE-BEGIN -->\n' + table.replace('\\', '\\\\') + '\n<!-- SEED-TABLE-END -->', s, flags=re.S)
open(p, 'w').write(s)
with open('/verif/seeded/INDEX.md', 'w') as f:
    f.write("# Seeded changes\n\nEach directory holds `patch.diff` (apply to a scratch worktree of /repo with `git apply`), `demo/run.sh <repo>` (exits non-zero when the defect is present) and `meta.json`.\nSuffix A/B = first round, C/D = second round (asked to be harder and different from the first). All were written by independent sub-agents that saw only the property text (round 2: plus one-line summaries of round 1 to avoid repeats); all compile, pass the 42 existing tests, and were verified by `tools/collectseeds.py` at the /repo HEAD recorded in meta.json.\n`tools/tryseed.sh <patch> <demo|-> <checks...>` re-runs one.\n\n| id | change | needs | caught by (quick tier) | not caught by |\n|---|---|---|---|---|\n")
    f.write("\n".join(idx) + "\n")
print(len(rows), "seeds")
