#!/usr/bin/env python3
"""Regenerates MANIFEST.json from tools/manifest_checks.json (per-property texts).
Properties without an entry there are listed under not_applicable as 'not yet built'."""
import json, os, subprocess
root = os.path.dirname(os.path.dirname(os.path.abspath(__file__)))
props = [json.loads(l) for l in open(os.path.join(root, 'properties.jsonl'))]
checks_meta = json.load(open(os.path.join(root, 'tools', 'manifest_checks.json')))
hook_commits = checks_meta.get('_hook_commits', [])
checks, na = [], []
for p in props:
    pid = p['id']
    m = checks_meta.get(pid)
    if not m or m.get('not_applicable'):
        na.append({"property_id": pid, "reason": (m or {}).get('not_applicable', 'check not built yet in this tree (planned, see DESIGN.md section 4)')})
        continue
    checks.append({
        "property_id": pid,
        "quick_cmd": f"./run {pid} quick",
        "thorough_cmd": f"./run {pid} thorough",
        "evidence_file": f"/verif/evidence/{pid}.json",
        "replay_cmd_template": "./run replay {path}",
        "engine": "pvmon",
        "level_claimed": {"category": "exploration", "text": m['text'], "design_ref": f"DESIGN.md section 4 ({pid})"},
        "level_note": m['note'],
        "technique": m['technique'],
    })
manifest = {
    "version": 1,
    "setup_cmd": "./setup.sh",
    "hooks": {
        "guard": "verif",
        "enable": "go build -tags verif (the harness module replaces github.com/huderlem/poryscript with /repo and is rebuilt by ./run on every invocation)",
        "baseline_off_cmd": "cd /repo && GOFLAGS=-mod=mod GOPROXY=off GOSUMDB=off GOTOOLCHAIN=local go test -json -vet=off -count=1 -timeout 25m ./...",
        "source_commits": hook_commits,
        "add_only": True,
    },
    "engines": [{
        "name": "pvmon", "path": "/verif/cmd/pvmon",
        "serves_properties": [c['property_id'] for c in checks],
        "kind_free_text": "runtime monitors: real compiler executed on generated/hostile workloads; emitted assembly run on a VM against a reference interpreter of the source; structural, metamorphic and robustness oracles; hook = token-pull counter",
    }],
    "checks": checks,
    "not_applicable": na,
    "notes": "All checks: ./run <id> quick|thorough (rebuilds harness + CLI from /repo's working tree with -tags verif). Exit 0 held / 1 VIOLATION / 2 INCONCLUSIVE. Known findings: /verif/known_findings.json.",
}
json.dump(manifest, open(os.path.join(root, 'MANIFEST.json'), 'w'), indent=1)
print("checks:", [c['property_id'] for c in checks], "n/a:", [n['property_id'] for n in na])
