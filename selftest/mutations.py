#!/usr/bin/env python3
"""Self-test of the monitors: a catalogue of small, realistic source mutations.

Each mutation is applied to a scratch worktree of /repo (never /repo itself), must build
(also with -tags verif) and - unless marked tests_may_fail - pass the 42 unit tests; then the
listed checks are run in their quick tier against the scratch tree (VERIF_REPO) and must exit 1.
Benign mutations (expect == []) must leave every listed check silent.

usage: selftest/mutations.py [name-substring ...]      (results are printed and written to selftest/RESULTS.md)
"""
import json, os, subprocess, sys, time

ENV = dict(os.environ, GOFLAGS="-mod=mod", GOPROXY="off", GOSUMDB="off", GOTOOLCHAIN="local")
M = "/tmp/selftest_repo"
ROOT = os.path.dirname(os.path.dirname(os.path.abspath(__file__)))

# (name, file, old, new, checks expected to fire, checks expected silent)
MUT = [
 ("while-body-returns-past-loop", "emitter/emitter.go", "returnID:   headerChunk.id,\n\t\tstatements: stmt.Consequence.Body.Statements,\n\t}\n\n\tif stmt.Consequence.Expression == nil", "returnID:   returnID,\n\t\tstatements: stmt.Consequence.Body.Statements,\n\t}\n\n\tif stmt.Consequence.Expression == nil", ["C01"], []),
 ("continue-uses-break-map", "emitter/emitter.go", "destChunkID, ok := breakStatementOriginChunks[stmt.LoopStatment]", "destChunkID, ok := breakStatementReturnChunks[stmt.LoopStatment]", ["C01"], []),
 ("dowhile-entered-at-header", "emitter/emitter.go", "return remainingChunks, &jump{destChunkID: consequenceChunk.id}, returnID\n}\n\nfunc createSwitchStatementChunks", "return remainingChunks, &jump{destChunkID: headerChunk.id}, returnID\n}\n\nfunc createSwitchStatementChunks", ["C01"], []),
 ("end-finalises-chunk-when-not-last", "emitter/emitter.go", "if i == len(curChunk.statements)-1 && (commandStmt.Name.Value == \"end\"", "if (commandStmt.Name.Value == \"end\"", ["C01", "C04"], []),
 ("negation-lt-to-gt", "parser/parser.go", "case token.LT:\n\t\treturn token.GTE", "case token.LT:\n\t\treturn token.GT", ["C02"], []),
 ("demorgan-and-not-swapped", "parser/parser.go", "case token.AND:\n\t\treturn token.OR", "case token.AND:\n\t\treturn token.AND", ["C02"], []),
 ("flag-neq-true-set", "emitter/branch.go", "(dest.operatorExpression.Operator == token.NEQ && dest.operatorExpression.ComparisonValue == token.FALSE) {\n\t\tsb.WriteString(fmt.Sprintf(\"\\tgoto_if_set", "(dest.operatorExpression.Operator == token.NEQ && dest.operatorExpression.ComparisonValue == token.TRUE) {\n\t\tsb.WriteString(fmt.Sprintf(\"\\tgoto_if_set", ["C02"], []),
 ("value-emits-compare", "emitter/branch.go", "compareCommand = \"compare_var_to_value\"", "compareCommand = \"compare\"", ["C02"], []),
 ("or-right-uses-left-fail-target", "emitter/emitter.go", "remainingChunks, linkChunk, firstID = splitBooleanExpressionChunks(binaryExpression.Right, chunkCounter, successChunkID, failureChunkID, remainingChunks, firstID)\n\t\t\tfailChunk.branchBehavior", "remainingChunks, linkChunk, firstID = splitBooleanExpressionChunks(binaryExpression.Right, chunkCounter, successChunkID, failChunk.id, remainingChunks, firstID)\n\t\t\tfailChunk.branchBehavior", ["C02"], []),
 ("shared-body-scan-starts-at-i", "emitter/emitter.go", "for j := i + 1; j < len(stmt.Cases); j++ {", "for j := i; j < len(stmt.Cases); j++ {", [], ["C03"]),
 ("default-bookkeeping-dropped", "emitter/emitter.go", "\t\t\t\tprocessedDefaultCase = true\n\t\t\t}\n\t\t} else {\n\t\t\t// Scan forward", "\t\t\t}\n\t\t} else {\n\t\t\t// Scan forward", ["C03"], []),
 ("switch-pop-break-stack-missing", "parser/parser.go", "\tp.popBreakStack()\n\n\tif len(statement.Cases) == 0", "\n\tif len(statement.Cases) == 0", ["C20"], []),
 ("goto-suppression-inverted-in-jump", "emitter/branch.go", "func (j *jump) renderBranchConditions(sb *strings.Builder, scriptName string, nextChunkID int, registerJumpChunk func(int), enableLineMarkers bool, inputFilepath string) bool {\n\tif j.destChunkID != nextChunkID {", "func (j *jump) renderBranchConditions(sb *strings.Builder, scriptName string, nextChunkID int, registerJumpChunk func(int), enableLineMarkers bool, inputFilepath string) bool {\n\tif j.destChunkID == nextChunkID {", ["C01", "C05"], []),
 ("label-always-rendered", "emitter/emitter.go", "if chunkID == 0 || jumpChunks[chunkID] {", "if chunkID >= 0 {", ["C05"], ["C01"]),
 ("register-jump-omitted-in-break", "emitter/branch.go", "} else if bc.destChunkID != nextChunkID {\n\t\tregisterJumpChunk(bc.destChunkID)", "} else if bc.destChunkID != nextChunkID {", ["C04"], []),
 ("text-dedup-ignores-type", "parser/parser.go", "key := textKey{value: t.text.Literal, strType: t.stringType}", "key := textKey{value: t.text.Literal}", ["C06"], []),
 ("text-counter-global", "parser/parser.go", "textLabel := getImplicitTextLabel(t.scriptName, p.inlineTextCounts[t.scriptName])\n\t\t\tt.command.Args[t.argPos] = textLabel\n\t\t\tp.inlineTextCounts[t.scriptName]++", "textLabel := getImplicitTextLabel(t.scriptName, p.inlineTextCounts[\"\"])\n\t\t\tt.command.Args[t.argPos] = textLabel\n\t\t\tp.inlineTextCounts[\"\"]++", ["C06"], []),
 ("format-overlap-dropped", "parser/formattext.go", "nextWidth += cursorOverlapWidth", "nextWidth += 0", ["C07"], []),
 ("format-fit-ge", "parser/formattext.go", "if nextWidth > maxWidth && curLineSb.Len() > 0 {", "if nextWidth >= maxWidth && curLineSb.Len() > 0 {", ["C07"], []),
 ("mapscripts-byte0-dropped", "emitter/emitter.go", "sb.WriteString(\"\\t.byte 0\\n\\n\")", "sb.WriteString(\"\\n\")", ["C08"], []),
 ("table-2byte0-dropped", "emitter/emitter.go", "sb.WriteString(\"\\t.2byte 0\\n\\n\")", "sb.WriteString(\"\\n\")", ["C08"], []),
 ("ascii-terminator-dollar", "parser/parser.go", "\"ascii\":   \"\\\\0\",", "\"ascii\":   \"$\",", ["C09"], []),
 ("string-type-ignored-in-emit", "emitter/emitter.go", "if len(text.StringType) > 0 {\n\t\t\tdirective = text.StringType", "if len(text.StringType) > 10 {\n\t\t\tdirective = text.StringType", ["C09"], []),
 ("args-joined-without-comma", "emitter/chunk.go", "strings.Join(commandStmt.Args, \", \")", "strings.Join(commandStmt.Args, \" \")", ["C10"], []),
 ("paren-depth-not-counted", "parser/parser.go", "} else if p.curToken.Type == token.LPAREN {\n\t\t\t\tnumOpenParens++", "} else if p.curToken.Type == token.LPAREN {", ["C10?"], []),  # nested-parenthesis arguments become compile errors: not a C10 violation, reject guard -> inconclusive
 ("autovar-preamble-after-compare", "emitter/branch.go", "\tif l.preambleStatement != nil {\n\t\tsb.WriteString(renderCommandStatement(l.preambleStatement))\n\t}\n\trenderBranchComparison(sb, l.truthyDest, scriptName, enableLineMarkers, inputFilepath)", "\trenderBranchComparison(sb, l.truthyDest, scriptName, enableLineMarkers, inputFilepath)\n\tif l.preambleStatement != nil {\n\t\tsb.WriteString(renderCommandStatement(l.preambleStatement))\n\t}", ["C11"], []),
 ("autovar-argpos-off-by-one", "parser/parser.go", "varName = commandStmt.Args[*cmd.VarNameArgPosition]", "varName = commandStmt.Args[(*cmd.VarNameArgPosition+1)%len(commandStmt.Args)]", ["C11"], []),
 ("poryswitch-leaks-other-case-texts", "parser/parser.go", "impData, ok := caseImpData[switchValue]\n\tif !ok {", "impData, ok := caseImpData[switchValue]\n\tfor _, d := range caseImpData {\n\t\tif d != impData {\n\t\t\timpData.add(d)\n\t\t}\n\t}\n\tif !ok {", ["C12"], []),
 ("const-not-substituted-in-case", "parser/parser.go", "\t\t\t\tparts = append(parts, p.tryReplaceWithConstant(p.curToken.Literal))\n\t\t\t\tp.nextToken()\n\t\t\t\tif p.curToken.Type == token.EOF {\n\t\t\t\t\treturn nil, nil, nil, NewParseError(caseToken", "\t\t\t\tparts = append(parts, p.curToken.Literal)\n\t\t\t\tp.nextToken()\n\t\t\t\tif p.curToken.Type == token.EOF {\n\t\t\t\t\treturn nil, nil, nil, NewParseError(caseToken", ["C13"], []),
 ("command-names-substituted", "parser/parser.go", "Value: p.curToken.Literal,\n\t\t},\n\t\tArgs: []string{},", "Value: p.tryReplaceWithConstant(p.curToken.Literal),\n\t\t},\n\t\tArgs: []string{},", ["C13"], []),
 ("multiplier-loop-le", "parser/parser.go", "for i = 0; i < num; i++ {", "for i = 0; i <= num; i++ {", ["C14"], []),
 ("item-none-not-appended", "emitter/emitter.go", "\tsb.WriteString(fmt.Sprintf(\"\\t.2byte %s\\n\", terminator))\n\treturn sb.String()", "\treturn sb.String()", ["C14"], []),
 ("multiplier-max-10000", "parser/parser.go", "if num > 9999 {", "if num > 10000 {", ["C14"], []),
 ("movement-default-global", "parser/parser.go", "scope, err := p.parseScopeModifier(token.LOCAL)\n\tif err != nil {\n\t\treturn nil, err\n\t}\n\tstatement.Scope = scope\n\tif err := p.expectPeek(token.IDENT); err != nil {\n\t\treturn nil, NewRangeParseError(statement.Token, p.peekToken, \"missing name for movement statement\")", "scope, err := p.parseScopeModifier(token.GLOBAL)\n\tif err != nil {\n\t\treturn nil, err\n\t}\n\tstatement.Scope = scope\n\tif err := p.expectPeek(token.IDENT); err != nil {\n\t\treturn nil, NewRangeParseError(statement.Token, p.peekToken, \"missing name for movement statement\")", ["C15"], []),
 ("sublabels-global", "emitter/chunk.go", "if isMainEntryPoint && isGlobal {", "if (isMainEntryPoint || len(label) > 0) && isGlobal {", ["C15"], []),
 ("marker-uses-end-line", "emitter/emitter.go", "emitLineMarker(sb, tok.LineNumber, inputFilepath)", "emitLineMarker(sb, tok.EndLineNumber, inputFilepath)", [], ["C16"]),  # still a line of the construct (range reading): benign
 ("marker-without-path", "emitter/emitter.go", "return enableLineMarkers && len(inputFilepath) > 0", "return enableLineMarkers", ["C16"], []),
 ("package-level-text-counter", "parser/parser.go", "func getImplicitTextLabel(scriptName string, i int) string {\n\treturn fmt.Sprintf(\"%s_Text_%d\", scriptName, i)", "var verifSeedCounter int\n\nfunc getImplicitTextLabel(scriptName string, i int) string {\n\tverifSeedCounter++\n\tif verifSeedCounter%50 == 0 {\n\t\ti += 100\n\t}\n\treturn fmt.Sprintf(\"%s_Text_%d\", scriptName, i)", ["C17", "C06"], []),
 ("chunk-order-from-map", "emitter/emitter.go", "\t\tsort.Ints(chunkIDs)\n", "\t\t_ = sort.Ints\n", ["C17"], []),
 ("lexer-column-off-by-one-ident", "lexer/lexer.go", "tok.StartCharIndex = l.prevCharNumber\n\t\t\ttok.StartUtf8CharIndex = l.prevUtf8CharNumber\n\t\t\ttok.LineNumber = l.lineNumber\n\t\t\ttok.Literal = l.readIdentifier()", "tok.StartCharIndex = l.prevCharNumber + 1\n\t\t\ttok.StartUtf8CharIndex = l.prevUtf8CharNumber\n\t\t\ttok.LineNumber = l.lineNumber\n\t\t\ttok.Literal = l.readIdentifier()", ["C19"], []),
 ("comment-skip-hash-only", "lexer/lexer.go", "// Both '#' and '//' are valid comment styles.\n\tfor l.ch == '#' || (l.ch == '/' && l.peekChar() == '/') {", "// Both '#' and '//' are valid comment styles.\n\tfor l.ch == '#' || (l.ch == '/' && l.peekChar() == '/' && l.charNumber > 1) {", ["C19"], []),
 ("duplicate-case-check-on-raw-value", "parser/parser.go", "\t\t\tcaseValue := strings.Join(parts, \" \")\n\t\t\tif caseValues[caseValue] {", "\t\t\tcaseValue := strings.Join(parts, \" \")\n\t\t\tif caseValues[caseValueToken.Literal] {", ["C20"], []),
 ("break-check-removed-in-pory-colon", "parser/parser.go", "if p.peekBreakStack() == nil {\n\t\treturn nil, NewParseError(p.curToken, \"'break' statement outside of any break-able scope\")", "if p.peekBreakStack() == nil && p.peekToken.Type != token.RBRACE {\n\t\treturn nil, NewParseError(p.curToken, \"'break' statement outside of any break-able scope\")", ["C20"], []),
 # benign refactors: must not alarm
 ("BENIGN-sublabel-numbering-offset", "emitter/chunk.go", "return fmt.Sprintf(\"%s_%d\", scriptName, c.id)", "return fmt.Sprintf(\"%s_%d\", scriptName, c.id+100)", [], ["C01", "C03", "C04", "C05", "C08", "C11"]),
]

NEEDS_ALL_GOTO_REWRITE = {"BENIGN-sublabel-numbering-offset"}


def sh(cmd, cwd=None, timeout=1800):
    return subprocess.run(cmd, shell=True, cwd=cwd, env=ENV, stdout=subprocess.PIPE, stderr=subprocess.STDOUT, text=True, errors="replace", timeout=timeout)


def reset():
    if not os.path.isdir(M):
        sh(f"git -C /repo worktree add -q --detach {M} HEAD")
    head = sh("git -C /repo rev-parse HEAD").stdout.strip()
    sh(f"git -C {M} checkout -q --detach {head}; git -C {M} checkout -q -- .; git -C {M} clean -fdq")


def main():
    pats = sys.argv[1:]
    rows = []
    for name, f, old, new, expect, silent in MUT:
        if pats and not any(p in name for p in pats):
            continue
        reset()
        path = os.path.join(M, f)
        src = open(path).read()
        if src.count(old) != 1:
            rows.append((name, "MUTATION DOES NOT APPLY (%d matches)" % src.count(old), "", ""))
            print(rows[-1]); continue
        src2 = src.replace(old, new)
        if name in NEEDS_ALL_GOTO_REWRITE:
            pass
        open(path, "w").write(src2)
        if name == "BENIGN-sublabel-numbering-offset":
            # every place that renders a sub-label must use the same numbering
            for g in ("emitter/branch.go", "emitter/chunk.go"):
                p2 = os.path.join(M, g); s = open(p2).read()
                s = s.replace('fmt.Sprintf("\\tgoto %s_%d\\n", scriptName, ', 'fmt.Sprintf("\\tgoto %s_%d\\n", scriptName, 100+')
                s = s.replace('scriptName, dest.id)', 'scriptName, dest.id+100)')
                s = s.replace('scriptName, switchCase.destChunkID)', 'scriptName, switchCase.destChunkID+100)')
                open(p2, "w").write(s)
        b = sh("go build ./... && go build -tags verif ./...", cwd=M)
        if b.returncode != 0:
            rows.append((name, "DOES NOT BUILD", b.stdout[-300:], "")); print(rows[-1]); continue
        t = sh("go test -count=1 ./...", cwd=M)
        tests = "tests pass" if t.returncode == 0 else "tests FAIL"
        res = []
        for c0 in expect + silent:
            c = c0.rstrip("?")
            r = sh(f"VERIF_REPO={M} ./run {c} quick", cwd=ROOT)
            verdict = {0: "silent", 1: "CAUGHT", 2: "inconclusive"}.get(r.returncode, str(r.returncode))
            want = "inconclusive" if c0.endswith("?") else ("CAUGHT" if c0 in expect else "silent")
            ok = verdict == want
            res.append(f"{c}:{verdict}{'' if ok else ' (UNEXPECTED)'}")
        rows.append((name, tests, " ".join(res), ""))
        print(rows[-1], flush=True)
    reset()
    with open(os.path.join(ROOT, "selftest", "RESULTS.md"), "a") as fh:
        fh.write(f"\n## run {time.strftime('%Y-%m-%d %H:%M')} ({' '.join(pats) or 'all'})\n\n| mutation | unit tests | checks |\n|---|---|---|\n")
        for name, tests, res, _ in rows:
            fh.write(f"| {name} | {tests} | {res} |\n")


if __name__ == "__main__":
    main()
