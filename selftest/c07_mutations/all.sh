#!/bin/bash
cd /tmp/agent_c07/mut
F=parser/formattext.go P=parser/parser.go
R() { ./run_mut.sh "$@" 2>&1 | grep -E "^\[|seed=|APPLY|BUILD" | tr '\n' ' '; echo; }
R M1-overlap-line-cond $F 'if len(nextWord) > 0 && (curLineNum >= numLines-1 || fc.isParagraphBreak(nextWord)) {' 'if len(nextWord) > 0 && (curLineNum >= 1 || fc.isParagraphBreak(nextWord)) {'
R M2-overlap-dropped $F '				nextWidth += cursorOverlapWidth
' '
'
R M3-gt-to-ge $F 'if nextWidth > maxWidth && curLineSb.Len() > 0 {' 'if nextWidth >= maxWidth && curLineSb.Len() > 0 {'
R M4-no-reset-on-p $F 'curLineNum = 0' 'curLineNum++'
R M4b-explicit-l-not-counted $F '			} else {
				curLineNum++
			}
			isFirstWord = true' '			} else if word != `\l` {
				curLineNum++
			}
			isFirstWord = true'
R M5-ln-choice-off-by-one $F 'return curLineNum >= numLines-1' 'return curLineNum >= numLines'
R M6-N-always-n $F 'if curLineNum < numLines-1 {' 'if curLineNum < numLines-1 || true {'
R M6b-N-off-by-one $F 'if curLineNum < numLines-1 {' 'if curLineNum < numLines-1 || (numLines > 2 && curLineNum < numLines) {'
R M7-word-dropped-exact-fit $F '				curWidth += nextWordWidth
				if !isFirstWord {' '				curWidth += nextWordWidth
				if nextWidth == maxWidth && maxWidth%7 == 3 {
					word = nextWord
					continue
				}
				if !isFirstWord {'
R M8-space-not-counted $F 'nextWordWidth += spaceCharWidth' 'nextWordWidth += spaceCharWidth * 0'
R M9-default-fallback-ignored $F '		return defaultWidth' '		_ = defaultWidth
		return fallbackWidth'
R M10-code-key-ignored $F '	return fc.getWidth(code, fontID)' '	return fc.getWidth("default", fontID)'
R M11-bytes-not-runes $F '	for _, r := range word {
		wordWidth += fc.getRunePixelWidth(r, fontID)
	}' '	for i := 0; i < len(word); i++ {
		wordWidth += fc.getRunePixelWidth(rune(word[i]), fontID)
	}'
R M12-len-to-curwidth $F 'if nextWidth > maxWidth && curLineSb.Len() > 0 {' 'if nextWidth > maxWidth && curWidth > 0 {'
R M13-curwidth-after-break $F '				curWidth = wordWidth' '				curWidth = nextWordWidth'
R M14-overlap-not-before-explicit-break $F 'if len(nextWord) > 0 && (curLineNum >= numLines-1 || fc.isParagraphBreak(nextWord)) {' 'if len(nextWord) > 0 && ((curLineNum >= numLines-1 && !fc.isLineBreak(nextWord)) || fc.isParagraphBreak(nextWord)) {'
R M15-space-in-braces-splits $F 'if foundNonSpace && controlCodeLevel == 0 {' 'if foundNonSpace {'
R M16-no-newline-replace $F 'text = strings.ReplaceAll(text, "\n", " ")' 'text = strings.ReplaceAll(text, "\r", " ")'
R M17-overlap-only-numLines-lt3 $F 'if len(nextWord) > 0 && (curLineNum >= numLines-1 || fc.isParagraphBreak(nextWord)) {' 'if len(nextWord) > 0 && ((curLineNum >= numLines-1 && numLines < 3) || fc.isParagraphBreak(nextWord)) {'
R M18-overlap-not-before-p-when-multiline $F 'if len(nextWord) > 0 && (curLineNum >= numLines-1 || fc.isParagraphBreak(nextWord)) {' 'if len(nextWord) > 0 && (curLineNum >= numLines-1 || (fc.isParagraphBreak(nextWord) && numLines < 3)) {'
R P1-named-numLines-to-overlap $P '					numLines = int(num)' '					cursorOverlapWidth = int(num)'
R P2-positional-len-ignored-len-first $P '				maxLineLength = int(num)
				specifiedParams[formatParamMaxLineLength] = struct{}{}' '				_ = num
				specifiedParams[formatParamMaxLineLength] = struct{}{}'
R P3-positional-len-ignored-after-font $P '					num, _ := strconv.ParseInt(p.curToken.Literal, 0, 64)
					maxLineLength = int(num)
				}
			} else {' '					num, _ := strconv.ParseInt(p.curToken.Literal, 0, 64)
					_ = num
				}
			} else {'
R P4-cli-maxlen-overrides-explicit $P '	if maxLineLength <= 0 {
		maxLineLength = p.fonts.Fonts[fontID].MaxLineLength' '	if p.maxLineLength > 0 {
		maxLineLength = p.maxLineLength
	}
	if maxLineLength <= 0 {
		maxLineLength = p.fonts.Fonts[fontID].MaxLineLength'
R P5-config-numLines-ignored $P '		numLines = p.fonts.Fonts[fontID].NumLines
' '		numLines = 0
'
R P6-overlap-from-default-font $P 'cursorOverlapWidth = p.fonts.Fonts[fontID].CursorOverlapWidth' 'cursorOverlapWidth = p.fonts.Fonts[p.fonts.DefaultFontID].CursorOverlapWidth'
R P7-named-overlap-ignored $P '					cursorOverlapWidth = int(num)' '					_ = num'
R P8-named-fontid-ignored $P '					fontID = p.curToken.Literal
					fontIdToken = p.curToken
				case formatParamMaxLineLength:' '					fontIdToken = p.curToken
				case formatParamMaxLineLength:'
R P9-default-font-prefers-config $P '		if p.defaultFontID != "" {
			fontID = p.defaultFontID
		} else {
			fontID = p.fonts.DefaultFontID
		}' '		if p.fonts.DefaultFontID != "" {
			fontID = p.fonts.DefaultFontID
		} else {
			fontID = p.defaultFontID
		}'
R P10-named-maxlen-ignored $P '					num, _ := strconv.ParseInt(p.curToken.Literal, 0, 64)
					maxLineLength = int(num)
				case formatParamNumLines:' '					num, _ := strconv.ParseInt(p.curToken.Literal, 0, 64)
					_ = num
				case formatParamNumLines:'
R P11-font-after-len-ignored $P '					fontID = p.curToken.Literal
					fontIdToken = p.curToken
				}
			}
			expectingNamedParam' '					fontIdToken = p.curToken
				}
			}
			expectingNamedParam'
R P12-numLines-default-3 $P '			numLines = 2
' '			numLines = 3
'
cd /tmp/agent_c07/repo && git status --short
