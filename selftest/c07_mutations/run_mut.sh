#!/bin/bash
# usage: run_mut.sh <name> <file> <python-expr old> <new>   (exact string replace, must match once)
export GOFLAGS=-mod=mod GOPROXY=off GOSUMDB=off GOTOOLCHAIN=local
name="$1"; file="$2"; old="$3"; new="$4"
cd /tmp/agent_c07/repo || exit 9
python3 - "$file" "$old" "$new" <<'PY'
import sys
f,old,new=sys.argv[1:4]
s=open(f).read()
n=s.count(old)
if n!=1:
    print("MUTATION-APPLY-FAILED count=",n); sys.exit(3)
open(f,'w').write(s.replace(old,new))
PY
[ $? -eq 0 ] || { git checkout -q -- . ; exit 3; }
git diff --stat | tail -1
if go build ./... 2>&1 | head -5 | grep -q .; then echo "[$name] BUILD FAILED"; git checkout -q -- .; exit 4; fi
t=$(go test ./... 2>&1 | grep -c "^ok"); f=$(go test ./... 2>&1 | grep -E "^(FAIL|---)" | head -3)
echo "[$name] go test: ok-pkgs=$t fails: ${f:-none}"
cd /tmp/agent_c07/verif
out=$(VERIF_REPO=/tmp/agent_c07/repo VERIF_SEED=${SEED:-1} ./run C07 quick 2>&1)
echo "$out" | grep -E "^(VIOLATION|INCONCLUSIVE|  )" | head -6
echo "$out" | grep -oE "C07 quick seed=[0-9]+: [a-z ]+" 
cd /tmp/agent_c07/repo && git checkout -q -- . && git status --short | head
