#!/bin/bash
# MANIFEST.setup_cmd: check the toolchain and warm the build cache (offline).
set -eu
cd "$(dirname "$0")"
export GOFLAGS=-mod=mod GOPROXY=off GOSUMDB=off GOTOOLCHAIN=local
go version
mkdir -p .build evidence replays
go build -tags verif -o .build/pvmon.setup ./cmd/pvmon
(cd /repo && go build -o /verif/.build/poryscript.setup .)
./.build/pvmon.setup list
rm -f .build/pvmon.setup .build/poryscript.setup
echo setup ok
