// Package spec is the workload side of the monitors: a description of a
// poryscript program ("spec tree") that is independent of poryscript's own
// ast package, a printer that turns it into source text under a layout policy
// while recording where everything was written, and random generators.
//
// Everything an oracle needs to know about "what the author wrote" comes from
// these trees, never from poryscript's parser.
package spec

// Scope modifiers.
const (
	ScopeNone   = 0
	ScopeGlobal = 1
	ScopeLocal  = 2
)

// Program is a whole source file.
type Program struct {
	Items    []Item
	AutoVars map[string]AutoVar // command config
	Switches map[string]string  // -s values used when compiling
	nextID   int
}

// NewID hands out node ids (unique per program, > 0).
func (p *Program) NewID() int { p.nextID++; return p.nextID }

// AutoVar is one command-config entry.
type AutoVar struct {
	VarName string
	ArgPos  int // -1: use VarName
}

// Item is a top-level statement.
type Item interface{ itemNode() }

// Const is `const NAME = tokens`.
type Const struct {
	ID    int
	Name  string
	Value []string
}

// Script is `script(scope) Name { body }`.
type Script struct {
	ID    int
	Scope int
	Name  string
	Body  *Block
}

// TextItem is `text(scope) Name { value }` or with a poryswitch inside.
type TextItem struct {
	ID    int
	Scope int
	Name  string
	Val   *TextVal // nil when PS is set
	PS    *PSText
}

// PSText is a poryswitch inside a text statement.
type PSText struct {
	Key   string
	Cases []*PSTextCase
}

// PSTextCase is one case of a text poryswitch.
type PSTextCase struct {
	Name  string
	Brace bool
	Val   *TextVal
}

// MovementItem is `movement(scope) Name { steps }`.
type MovementItem struct {
	ID    int
	Scope int
	Name  string
	Steps []*ListElem
}

// MartItem is `mart(scope) Name { items }`.
type MartItem struct {
	ID    int
	Scope int
	Name  string
	Items []*ListElem
}

// ListElem is an element of a movement / moves() / mart list.
type ListElem struct {
	ID    int
	Name  string // step or item ("" when PS is set)
	Mult  string // "" or the multiplier literal (movement only)
	Comma bool   // print a comma after it (movement only)
	PS    *PSList
}

// PSList is a poryswitch inside a list.
type PSList struct {
	Key   string
	Cases []*PSListCase
}

// PSListCase is one case of a list poryswitch.
type PSListCase struct {
	Name  string
	Brace bool
	Elems []*ListElem
}

// MapScripts is `mapscripts(scope) Name { entries }`.
type MapScripts struct {
	ID      int
	Scope   int
	Name    string
	Entries []*MSEntry
}

// MSEntry is one map script entry.
type MSEntry struct {
	ID    int
	Type  string
	Kind  int    // 0 plain `T: Label`, 1 inline `T { body }`, 2 table `T [ rows ]`
	Label string // plain
	Body  *Block // inline
	Rows  []*MSRow
}

// MSRow is one row of a table map script.
type MSRow struct {
	ID    int
	Var   []string
	Value []string
	Label string // plain row
	Body  *Block // inline row (nil for plain)
}

// Raw is a raw statement. Lines are the content lines between the back-ticks
// (the first line directly follows the opening back-tick).
type Raw struct {
	ID       int
	Lines    []string
	TickSame bool   // back-tick on the same line as `raw`
	CRLF     bool   // content lines are separated by CR LF
	Pad      string // white space between the last line and the closing back-tick (not part of the content)
}

func (*Const) itemNode()        {}
func (*Script) itemNode()       {}
func (*TextItem) itemNode()     {}
func (*MovementItem) itemNode() {}
func (*MartItem) itemNode()     {}
func (*MapScripts) itemNode()   {}
func (*Raw) itemNode()          {}

// Block is a statement list.
type Block struct {
	ID    int
	Stmts []Stmt
}

// Stmt is a statement inside a script body.
type Stmt interface{ stmtNode() }

// Cmd is a command with its arguments.
type Cmd struct {
	ID          int
	Name        string
	Args        []*Arg
	EmptyParens bool // print `name()` when there are no arguments
}

// Arg is one command argument: a token list, an inline text or a moves() list.
type Arg struct {
	Toks  []string
	Text  *TextVal
	Moves []*ListElem
}

// TextVal is a string literal: optional type prefix, one or more parts,
// optionally wrapped in format().
type TextVal struct {
	ID     int
	Type   string
	Parts  []string
	Format *Format
}

// Format describes a format() wrapper: the parameter lexemes after the string
// and the values the generator means by them.
type Format struct {
	Params []string // lexemes after the string, including leading commas
	// the values the lexemes mean ("" / 0 = not given: the font config's default applies)
	FontID                               string
	MaxLineLength, NumLines, CursorWidth int
}

// CmdStmt is a command statement.
type CmdStmt struct{ Cmd *Cmd }

// Label is a label statement.
type Label struct {
	ID    int
	Name  string
	Scope int
}

// If is if/elif/else.
type If struct {
	ID   int
	Arms []*Arm
	Else *Block
}

// Arm is one `if`/`elif` arm.
type Arm struct {
	Cond Cond
	Body *Block
}

// While is `while (cond) {}`; Cond == nil is the condition-less form.
type While struct {
	ID   int
	Cond Cond
	Body *Block
}

// DoWhile is `do {} while (cond)`.
type DoWhile struct {
	ID   int
	Body *Block
	Cond Cond
}

// Break statement.
type Break struct{ ID int }

// Continue statement.
type Continue struct{ ID int }

// Switch statement.
type Switch struct {
	ID      int
	Operand []string // tokens inside var( ... ); nil when Auto is set
	Auto    *Cmd
	Cases   []*Case
}

// Case is one `case v:` / `default:` entry.
type Case struct {
	ID      int
	Default bool
	Value   []string
	Body    *Block
}

// PorySwitch is a statement-level poryswitch.
type PorySwitch struct {
	ID    int
	Key   string
	Cases []*PSCase
}

// PSCase is one case of a statement poryswitch.
type PSCase struct {
	Name  string
	Brace bool
	Body  *Block
}

func (*CmdStmt) stmtNode()    {}
func (*Label) stmtNode()      {}
func (*If) stmtNode()         {}
func (*While) stmtNode()      {}
func (*DoWhile) stmtNode()    {}
func (*Break) stmtNode()      {}
func (*Continue) stmtNode()   {}
func (*Switch) stmtNode()     {}
func (*PorySwitch) stmtNode() {}

// Cond is a boolean expression tree.
type Cond interface{ condNode() }

// And is an n-ary conjunction (len >= 2).
type And struct{ Xs []Cond }

// Or is an n-ary disjunction (len >= 2).
type Or struct{ Xs []Cond }

// Not is `!( X )` — negation of a group.
type Not struct{ X Cond }

// Paren is a redundant pair of parentheses.
type Paren struct{ X Cond }

// Leaf kinds.
const (
	LeafFlag     = "flag"
	LeafVar      = "var"
	LeafDefeated = "defeated"
	LeafAuto     = "auto"
)

// Leaf is one test.
type Leaf struct {
	ID      int
	Kind    string
	Operand []string // tokens inside flag()/var()/defeated()
	Auto    *Cmd     // LeafAuto
	Bang    bool     // `!leaf` (bare form only)
	Op      string   // "" = bare; else == != < <= > >=
	Value   []string // var: comparison tokens; flag/defeated: one of true TRUE false FALSE
	Raw     bool     // value( ... ) wrapper
}

func (*And) condNode()   {}
func (*Or) condNode()    {}
func (*Not) condNode()   {}
func (*Paren) condNode() {}
func (*Leaf) condNode()  {}
