package spec

import "fmt"

// ErrNoCase is returned by Resolve when a poryswitch has no matching case and
// no `_` fallback.
var ErrNoCase = fmt.Errorf("poryswitch without matching case")

// Resolve returns a copy of the program in which every poryswitch has been
// replaced by the content of the case selected by sw (or `_`). Node ids are
// preserved. This is the generator's own "manual selection".
func Resolve(p *Program, sw map[string]string) (*Program, error) {
	q := &Program{AutoVars: p.AutoVars, Switches: p.Switches, nextID: p.nextID}
	for _, it := range p.Items {
		switch x := it.(type) {
		case *Script:
			b, err := resolveBlock(x.Body, sw)
			if err != nil {
				return nil, err
			}
			q.Items = append(q.Items, &Script{ID: x.ID, Scope: x.Scope, Name: x.Name, Body: b})
		case *TextItem:
			if x.PS == nil {
				q.Items = append(q.Items, x)
				continue
			}
			var sel *TextVal
			found := false
			for _, c := range x.PS.Cases {
				if c.Name == sw[x.PS.Key] {
					sel, found = c.Val, true
				}
			}
			if !found {
				for _, c := range x.PS.Cases {
					if c.Name == "_" {
						sel, found = c.Val, true
					}
				}
			}
			if !found {
				return nil, ErrNoCase
			}
			q.Items = append(q.Items, &TextItem{ID: x.ID, Scope: x.Scope, Name: x.Name, Val: sel})
		case *MovementItem:
			es, err := resolveList(x.Steps, sw)
			if err != nil {
				return nil, err
			}
			q.Items = append(q.Items, &MovementItem{ID: x.ID, Scope: x.Scope, Name: x.Name, Steps: es})
		case *MartItem:
			es, err := resolveList(x.Items, sw)
			if err != nil {
				return nil, err
			}
			q.Items = append(q.Items, &MartItem{ID: x.ID, Scope: x.Scope, Name: x.Name, Items: es})
		case *MapScripts:
			m := &MapScripts{ID: x.ID, Scope: x.Scope, Name: x.Name}
			for _, e := range x.Entries {
				ne := &MSEntry{ID: e.ID, Type: e.Type, Kind: e.Kind, Label: e.Label}
				if e.Body != nil {
					b, err := resolveBlock(e.Body, sw)
					if err != nil {
						return nil, err
					}
					ne.Body = b
				}
				for _, r := range e.Rows {
					nr := &MSRow{ID: r.ID, Var: r.Var, Value: r.Value, Label: r.Label}
					if r.Body != nil {
						b, err := resolveBlock(r.Body, sw)
						if err != nil {
							return nil, err
						}
						nr.Body = b
					}
					ne.Rows = append(ne.Rows, nr)
				}
				m.Entries = append(m.Entries, ne)
			}
			q.Items = append(q.Items, m)
		default:
			q.Items = append(q.Items, it)
		}
	}
	return q, nil
}

func resolveList(es []*ListElem, sw map[string]string) ([]*ListElem, error) {
	var out []*ListElem
	for _, e := range es {
		if e.PS == nil {
			out = append(out, e)
			continue
		}
		var sel []*ListElem
		found := false
		for _, c := range e.PS.Cases {
			if c.Name == sw[e.PS.Key] {
				sel, found = c.Elems, true
			}
		}
		if !found {
			for _, c := range e.PS.Cases {
				if c.Name == "_" {
					sel, found = c.Elems, true
				}
			}
		}
		if !found {
			return nil, ErrNoCase
		}
		r, err := resolveList(sel, sw)
		if err != nil {
			return nil, err
		}
		out = append(out, r...)
	}
	return out, nil
}

func resolveCmd(c *Cmd, sw map[string]string) (*Cmd, error) {
	if c == nil {
		return nil, nil
	}
	n := &Cmd{ID: c.ID, Name: c.Name, EmptyParens: c.EmptyParens}
	for _, a := range c.Args {
		if a.Moves != nil {
			m, err := resolveList(a.Moves, sw)
			if err != nil {
				return nil, err
			}
			if m == nil {
				m = []*ListElem{}
			}
			n.Args = append(n.Args, &Arg{Moves: m})
		} else {
			n.Args = append(n.Args, a)
		}
	}
	return n, nil
}

func resolveCond(c Cond, sw map[string]string) (Cond, error) {
	switch x := c.(type) {
	case nil:
		return nil, nil
	case *And:
		n := &And{}
		for _, k := range x.Xs {
			r, err := resolveCond(k, sw)
			if err != nil {
				return nil, err
			}
			n.Xs = append(n.Xs, r)
		}
		return n, nil
	case *Or:
		n := &Or{}
		for _, k := range x.Xs {
			r, err := resolveCond(k, sw)
			if err != nil {
				return nil, err
			}
			n.Xs = append(n.Xs, r)
		}
		return n, nil
	case *Not:
		r, err := resolveCond(x.X, sw)
		return &Not{X: r}, err
	case *Paren:
		r, err := resolveCond(x.X, sw)
		return &Paren{X: r}, err
	case *Leaf:
		if x.Auto == nil {
			return x, nil
		}
		n := *x
		a, err := resolveCmd(x.Auto, sw)
		n.Auto = a
		return &n, err
	}
	return c, nil
}

func resolveBlock(b *Block, sw map[string]string) (*Block, error) {
	if b == nil {
		return nil, nil
	}
	nb := &Block{ID: b.ID}
	for _, st := range b.Stmts {
		switch x := st.(type) {
		case *CmdStmt:
			c, err := resolveCmd(x.Cmd, sw)
			if err != nil {
				return nil, err
			}
			nb.Stmts = append(nb.Stmts, &CmdStmt{Cmd: c})
		case *If:
			n := &If{ID: x.ID}
			for _, a := range x.Arms {
				c, err := resolveCond(a.Cond, sw)
				if err != nil {
					return nil, err
				}
				body, err := resolveBlock(a.Body, sw)
				if err != nil {
					return nil, err
				}
				n.Arms = append(n.Arms, &Arm{Cond: c, Body: body})
			}
			if x.Else != nil {
				e, err := resolveBlock(x.Else, sw)
				if err != nil {
					return nil, err
				}
				n.Else = e
			}
			nb.Stmts = append(nb.Stmts, n)
		case *While:
			c, err := resolveCond(x.Cond, sw)
			if err != nil {
				return nil, err
			}
			body, err := resolveBlock(x.Body, sw)
			if err != nil {
				return nil, err
			}
			nb.Stmts = append(nb.Stmts, &While{ID: x.ID, Cond: c, Body: body})
		case *DoWhile:
			c, err := resolveCond(x.Cond, sw)
			if err != nil {
				return nil, err
			}
			body, err := resolveBlock(x.Body, sw)
			if err != nil {
				return nil, err
			}
			nb.Stmts = append(nb.Stmts, &DoWhile{ID: x.ID, Cond: c, Body: body})
		case *Switch:
			n := &Switch{ID: x.ID, Operand: x.Operand}
			a, err := resolveCmd(x.Auto, sw)
			if err != nil {
				return nil, err
			}
			n.Auto = a
			for _, c := range x.Cases {
				body, err := resolveBlock(c.Body, sw)
				if err != nil {
					return nil, err
				}
				n.Cases = append(n.Cases, &Case{ID: c.ID, Default: c.Default, Value: c.Value, Body: body})
			}
			nb.Stmts = append(nb.Stmts, n)
		case *PorySwitch:
			var sel *Block
			found := false
			for _, c := range x.Cases {
				if c.Name == sw[x.Key] {
					sel, found = c.Body, true
				}
			}
			if !found {
				for _, c := range x.Cases {
					if c.Name == "_" {
						sel, found = c.Body, true
					}
				}
			}
			if !found {
				return nil, ErrNoCase
			}
			r, err := resolveBlock(sel, sw)
			if err != nil {
				return nil, err
			}
			nb.Stmts = append(nb.Stmts, r.Stmts...)
		default:
			nb.Stmts = append(nb.Stmts, st)
		}
	}
	return nb, nil
}

// AnyUnmatched reports whether some poryswitch anywhere in the program -
// including ones nested inside cases that are not selected - has neither a
// case for its key's value nor a `_` case.
func AnyUnmatched(p *Program, sw map[string]string) bool {
	has := func(names []string, key string) bool {
		for _, n := range names {
			if n == sw[key] || n == "_" {
				return true
			}
		}
		return false
	}
	bad := false
	var list func(es []*ListElem)
	list = func(es []*ListElem) {
		for _, e := range es {
			if e.PS == nil {
				continue
			}
			var names []string
			for _, c := range e.PS.Cases {
				names = append(names, c.Name)
				list(c.Elems)
			}
			if !has(names, e.PS.Key) {
				bad = true
			}
		}
	}
	var cmd func(c *Cmd)
	cmd = func(c *Cmd) {
		if c == nil {
			return
		}
		for _, a := range c.Args {
			list(a.Moves)
		}
	}
	var cond func(c Cond)
	cond = func(c Cond) {
		switch x := c.(type) {
		case *And:
			for _, k := range x.Xs {
				cond(k)
			}
		case *Or:
			for _, k := range x.Xs {
				cond(k)
			}
		case *Not:
			cond(x.X)
		case *Paren:
			cond(x.X)
		case *Leaf:
			cmd(x.Auto)
		}
	}
	var blk func(b *Block)
	blk = func(b *Block) {
		if b == nil {
			return
		}
		for _, st := range b.Stmts {
			switch x := st.(type) {
			case *CmdStmt:
				cmd(x.Cmd)
			case *If:
				for _, a := range x.Arms {
					cond(a.Cond)
					blk(a.Body)
				}
				blk(x.Else)
			case *While:
				cond(x.Cond)
				blk(x.Body)
			case *DoWhile:
				blk(x.Body)
				cond(x.Cond)
			case *Switch:
				cmd(x.Auto)
				for _, c := range x.Cases {
					blk(c.Body)
				}
			case *PorySwitch:
				var names []string
				for _, c := range x.Cases {
					names = append(names, c.Name)
					blk(c.Body)
				}
				if !has(names, x.Key) {
					bad = true
				}
			}
		}
	}
	for _, it := range p.Items {
		switch x := it.(type) {
		case *Script:
			blk(x.Body)
		case *TextItem:
			if x.PS != nil {
				var names []string
				for _, c := range x.PS.Cases {
					names = append(names, c.Name)
				}
				if !has(names, x.PS.Key) {
					bad = true
				}
			}
		case *MovementItem:
			list(x.Steps)
		case *MartItem:
			list(x.Items)
		case *MapScripts:
			for _, e := range x.Entries {
				blk(e.Body)
				for _, r := range e.Rows {
					blk(r.Body)
				}
			}
		}
	}
	return bad
}
