package spec

import (
	"math/rand/v2"
	"strings"
	"unicode"
	"unicode/utf8"
)

// Lex is one source lexeme with the position the layout gave it.
type Lex struct {
	S         string
	Glue      bool // no separator at all before the next lexeme
	NoComment bool // only whitespace between this and the next lexeme
	SameLine  bool // next lexeme must stay on the same line
	NewLine   bool // next lexeme must start on a later line
	NL        bool // canonical layout: newline after this lexeme
	// filled by Layout:
	Line, Col, RuneCol, Off int // position of the first character (Line 1-based, columns 0-based)
	EndLine                 int
}

// Printed is a laid-out program.
type Printed struct {
	Src   string
	Lex   []Lex
	Lines int
	// Range of lexeme indices per node id (inclusive).
	First, Last map[int]int
	// Mark: named single lexemes, key = id + role.
	Marks map[MarkKey]int
}

// MarkKey names one lexeme of a node.
type MarkKey struct {
	ID   int
	Role string
}

// LineRange returns the source line range of a node.
func (p *Printed) LineRange(id int) (int, int, bool) {
	f, ok := p.First[id]
	if !ok {
		return 0, 0, false
	}
	l := p.Last[id]
	return p.Lex[f].Line, p.Lex[l].EndLine, true
}

// MarkLine returns the line of a marked lexeme.
func (p *Printed) MarkLine(id int, role string) (int, bool) {
	i, ok := p.Marks[MarkKey{id, role}]
	if !ok {
		return 0, false
	}
	return p.Lex[i].Line, true
}

type printer struct {
	out    []Lex
	first  map[int]int
	last   map[int]int
	marks  map[MarkKey]int
	expand map[string][]string // constant uses ("$NAME") are printed as their expansion
}

// tok emits one lexeme. A token of the form "$NAME" is a use of constant
// NAME: it is printed as NAME, or as the constant's expansion when the
// printer was asked to substitute constants by hand.
func (w *printer) tok(s string) int {
	if len(s) > 1 && s[0] == '\x01' {
		// "\x01tok": written directly behind the previous lexeme (no blank)
		if n := len(w.out); n > 0 {
			w.out[n-1].Glue = true
		}
		s = s[1:]
	}
	if len(s) > 2 && s[0] == '-' && s[1] == '$' {
		// "-$NAME": a minus sign written directly in front of a constant use (no blank in between)
		i := len(w.out)
		w.out = append(w.out, Lex{S: "-", Glue: true})
		w.tok(s[1:])
		return i
	}
	if len(s) > 1 && s[0] == '$' {
		if w.expand != nil {
			first := len(w.out)
			for _, t := range w.expand[s[1:]] {
				w.out = append(w.out, Lex{S: t})
			}
			return first
		}
		s = s[1:]
	}
	w.out = append(w.out, Lex{S: s})
	return len(w.out) - 1
}
func (w *printer) toks(ss ...string) {
	for _, s := range ss {
		w.tok(s)
	}
}
func (w *printer) nl() {
	if len(w.out) > 0 {
		w.out[len(w.out)-1].NL = true
	}
}
func (w *printer) begin(id int) int { return len(w.out) }
func (w *printer) end(id int, start int) {
	if id == 0 || start >= len(w.out) {
		return
	}
	w.first[id] = start
	w.last[id] = len(w.out) - 1
}
func (w *printer) mark(id int, role string, idx int) {
	if id != 0 {
		w.marks[MarkKey{id, role}] = idx
	}
}

// Print turns a program into lexemes (no layout yet).
func Print(p *Program) *Printed { return PrintExpanded(p, nil) }

// PrintExpanded prints the program with every constant use replaced by the
// given expansion and the const statements left out (expand != nil).
func PrintExpanded(p *Program, expand map[string][]string) *Printed {
	w := &printer{first: map[int]int{}, last: map[int]int{}, marks: map[MarkKey]int{}, expand: expand}
	for _, it := range p.Items {
		if _, isConst := it.(*Const); isConst && expand != nil {
			continue
		}
		w.item(it)
	}
	return &Printed{Lex: w.out, First: w.first, Last: w.last, Marks: w.marks}
}

func (w *printer) scope(s int) {
	switch s {
	case ScopeGlobal:
		w.toks("(", "global", ")")
	case ScopeLocal:
		w.toks("(", "local", ")")
	}
}

func (w *printer) item(it Item) {
	switch x := it.(type) {
	case *Const:
		s := w.begin(x.ID)
		w.tok("const")
		w.mark(x.ID, "name", w.tok(x.Name))
		w.tok("=")
		w.toks(x.Value...)
		w.nl()
		w.end(x.ID, s)
	case *Script:
		s := w.begin(x.ID)
		w.mark(x.ID, "kw", w.tok("script"))
		w.scope(x.Scope)
		w.mark(x.ID, "name", w.tok(x.Name))
		w.block(x.Body)
		w.nl()
		w.end(x.ID, s)
	case *TextItem:
		s := w.begin(x.ID)
		w.mark(x.ID, "kw", w.tok("text"))
		w.scope(x.Scope)
		w.mark(x.ID, "name", w.tok(x.Name))
		w.tok("{")
		w.nl()
		if x.PS != nil {
			w.tok("poryswitch")
			w.toks("(", x.PS.Key, ")", "{")
			w.nl()
			for _, c := range x.PS.Cases {
				w.tok(c.Name)
				if c.Brace {
					w.tok("{")
				} else {
					w.tok(":")
				}
				w.text(c.Val)
				if c.Brace {
					w.tok("}")
				}
				w.nl()
			}
			w.tok("}")
			w.nl()
		} else {
			w.text(x.Val)
			w.nl()
		}
		w.tok("}")
		w.nl()
		w.end(x.ID, s)
	case *MovementItem:
		s := w.begin(x.ID)
		w.mark(x.ID, "kw", w.tok("movement"))
		w.scope(x.Scope)
		w.mark(x.ID, "name", w.tok(x.Name))
		w.tok("{")
		w.nl()
		w.list(x.Steps)
		w.tok("}")
		w.nl()
		w.end(x.ID, s)
	case *MartItem:
		s := w.begin(x.ID)
		w.mark(x.ID, "kw", w.tok("mart"))
		w.scope(x.Scope)
		w.mark(x.ID, "name", w.tok(x.Name))
		w.tok("{")
		w.nl()
		w.list(x.Items)
		w.tok("}")
		w.nl()
		w.end(x.ID, s)
	case *MapScripts:
		s := w.begin(x.ID)
		w.mark(x.ID, "kw", w.tok("mapscripts"))
		w.scope(x.Scope)
		w.mark(x.ID, "name", w.tok(x.Name))
		w.tok("{")
		w.nl()
		for _, e := range x.Entries {
			es := w.begin(e.ID)
			w.mark(e.ID, "type", w.tok(e.Type))
			switch e.Kind {
			case 0:
				w.toks(":", e.Label)
			case 1:
				w.block(e.Body)
			case 2:
				w.tok("[")
				w.nl()
				for _, r := range e.Rows {
					rs := w.begin(r.ID)
					for i, t := range r.Var {
						idx := w.tok(t)
						if i == 0 {
							w.mark(r.ID, "var", idx)
						}
					}
					w.tok(",")
					w.toks(r.Value...)
					if r.Body != nil {
						w.block(r.Body)
					} else {
						w.toks(":", r.Label)
					}
					w.nl()
					w.end(r.ID, rs)
				}
				w.tok("]")
			}
			w.nl()
			w.end(e.ID, es)
		}
		w.tok("}")
		w.nl()
		w.end(x.ID, s)
	case *Raw:
		s := w.begin(x.ID)
		i := w.tok("raw")
		w.mark(x.ID, "kw", i)
		if x.TickSame {
			w.out[i].SameLine = true
		} else {
			w.out[i].NewLine = true
		}
		sep := "\n"
		if x.CRLF {
			sep = "\r\n"
		}
		w.mark(x.ID, "tick", w.tok("`"+strings.Join(x.Lines, sep)+x.Pad+"`"))
		w.nl()
		w.end(x.ID, s)
	}
}

func (w *printer) list(es []*ListElem) {
	for _, e := range es {
		s := w.begin(e.ID)
		if e.PS != nil {
			w.tok("poryswitch")
			w.toks("(", e.PS.Key, ")", "{")
			w.nl()
			for _, c := range e.PS.Cases {
				w.tok(c.Name)
				if c.Brace {
					w.tok("{")
				} else {
					w.tok(":")
				}
				w.list(c.Elems)
				if c.Brace {
					w.tok("}")
				}
				w.nl()
			}
			w.tok("}")
		} else {
			w.mark(e.ID, "name", w.tok(e.Name))
			if e.Mult != "" {
				w.toks("*", e.Mult)
			}
			if e.Comma {
				w.tok(",")
			}
		}
		w.nl()
		w.end(e.ID, s)
	}
}

func (w *printer) text(t *TextVal) {
	s := w.begin(t.ID)
	if t.Format != nil {
		w.toks("format", "(")
	}
	if t.Type != "" {
		i := w.tok(t.Type)
		w.out[i].Glue = true
	}
	for i, part := range t.Parts {
		idx := w.tok(`"` + part + `"`)
		if i == 0 {
			w.mark(t.ID, "str", idx)
		}
	}
	// the text was written from `format(` / the type prefix to the end of its last piece: the parameters of a
	// format() call that follow the string are not part of it
	w.end(t.ID, s)
	if t.Format != nil {
		w.toks(t.Format.Params...)
		w.tok(")")
	}
}

func (w *printer) cmd(c *Cmd) {
	s := w.begin(c.ID)
	w.mark(c.ID, "name", w.tok(c.Name))
	if len(c.Args) > 0 || c.EmptyParens {
		w.tok("(")
		for i, a := range c.Args {
			if i > 0 {
				w.tok(",")
			}
			switch {
			case a.Text != nil:
				w.text(a.Text)
			case a.Moves != nil:
				w.toks("moves", "(")
				w.list(a.Moves)
				w.tok(")")
			default:
				w.toks(a.Toks...)
			}
		}
		w.tok(")")
	}
	w.end(c.ID, s)
}

func (w *printer) block(b *Block) {
	w.tok("{")
	w.nl()
	s := w.begin(b.ID)
	w.stmts(b.Stmts)
	w.end(b.ID, s)
	w.tok("}")
}

func (w *printer) stmts(ss []Stmt) {
	for _, st := range ss {
		w.stmt(st)
		w.nl()
	}
}

func (w *printer) stmt(st Stmt) {
	switch x := st.(type) {
	case *CmdStmt:
		w.cmd(x.Cmd)
	case *Label:
		s := w.begin(x.ID)
		w.mark(x.ID, "name", w.tok(x.Name))
		w.scope(x.Scope)
		w.tok(":")
		w.end(x.ID, s)
	case *If:
		s := w.begin(x.ID)
		for i, a := range x.Arms {
			if i == 0 {
				w.tok("if")
			} else {
				w.tok("elif")
			}
			w.tok("(")
			w.cond(a.Cond, 0)
			w.tok(")")
			w.block(a.Body)
		}
		if x.Else != nil {
			w.tok("else")
			w.block(x.Else)
		}
		w.end(x.ID, s)
	case *While:
		s := w.begin(x.ID)
		w.tok("while")
		if x.Cond != nil {
			w.tok("(")
			w.cond(x.Cond, 0)
			w.tok(")")
		}
		w.block(x.Body)
		w.end(x.ID, s)
	case *DoWhile:
		s := w.begin(x.ID)
		w.tok("do")
		w.block(x.Body)
		w.toks("while", "(")
		w.cond(x.Cond, 0)
		w.tok(")")
		w.end(x.ID, s)
	case *Break:
		s := w.begin(x.ID)
		w.tok("break")
		w.end(x.ID, s)
	case *Continue:
		s := w.begin(x.ID)
		w.tok("continue")
		w.end(x.ID, s)
	case *Switch:
		s := w.begin(x.ID)
		w.toks("switch", "(")
		if x.Auto != nil {
			os := len(w.out)
			w.cmd(x.Auto)
			w.first[-x.ID] = os // negative id: operand range
			w.last[-x.ID] = len(w.out) - 1
		} else {
			w.toks("var", "(")
			os := len(w.out)
			for i, t := range x.Operand {
				idx := w.tok(t)
				if i == 0 {
					w.mark(x.ID, "operand", idx)
				}
			}
			w.first[-x.ID] = os // negative id: the operand tokens alone
			w.last[-x.ID] = len(w.out) - 1
			w.tok(")")
		}
		w.toks(")", "{")
		w.nl()
		for _, c := range x.Cases {
			cs := w.begin(c.ID)
			if c.Default {
				w.toks("default", ":")
			} else {
				w.tok("case")
				vs := len(w.out)
				for i, t := range c.Value {
					idx := w.tok(t)
					if i == 0 {
						w.mark(c.ID, "value", idx)
					}
				}
				w.first[-c.ID] = vs
				w.last[-c.ID] = len(w.out) - 1
				w.tok(":")
			}
			w.nl()
			w.end(c.ID, cs)
			bs := w.begin(c.Body.ID)
			w.stmts(c.Body.Stmts)
			w.end(c.Body.ID, bs)
		}
		w.tok("}")
		w.end(x.ID, s)
	case *PorySwitch:
		s := w.begin(x.ID)
		w.toks("poryswitch", "(", x.Key, ")", "{")
		w.nl()
		for _, c := range x.Cases {
			w.tok(c.Name)
			if c.Brace {
				w.tok("{")
				w.nl()
				w.stmts(c.Body.Stmts)
				w.tok("}")
			} else {
				w.tok(":")
				w.stmts(c.Body.Stmts)
			}
			w.nl()
		}
		w.tok("}")
		w.end(x.ID, s)
	}
}

// cond prints a condition. ctx: 0 top, 1 inside And, 2 inside Or.
func (w *printer) cond(c Cond, ctx int) {
	switch x := c.(type) {
	case *And:
		open := ctx == 1
		if open {
			w.tok("(")
		}
		for i, k := range x.Xs {
			if i > 0 {
				w.tok("&&")
			}
			w.cond(k, 1)
		}
		if open {
			w.tok(")")
		}
	case *Or:
		open := ctx == 1 || ctx == 2
		if open {
			w.tok("(")
		}
		for i, k := range x.Xs {
			if i > 0 {
				w.tok("||")
			}
			w.cond(k, 2)
		}
		if open {
			w.tok(")")
		}
	case *Not:
		w.toks("!", "(")
		w.cond(x.X, 0)
		w.tok(")")
	case *Paren:
		w.tok("(")
		w.cond(x.X, 0)
		w.tok(")")
	case *Leaf:
		s := w.begin(x.ID)
		if x.Bang {
			w.tok("!")
		}
		if x.Kind == LeafAuto {
			w.cmd(x.Auto)
		} else {
			w.toks(x.Kind, "(")
			os := len(w.out)
			for i, t := range x.Operand {
				idx := w.tok(t)
				if i == 0 {
					w.mark(x.ID, "operand", idx)
				}
			}
			// the operand tokens alone, under the negative id
			w.first[-x.ID] = os
			w.last[-x.ID] = len(w.out) - 1
			w.tok(")")
		}
		if x.Op != "" {
			w.tok(x.Op)
			if x.Raw {
				w.toks("value", "(")
			}
			w.toks(x.Value...)
			if x.Raw {
				w.tok(")")
			}
		}
		w.end(x.ID, s)
	}
}

// ---------------------------------------------------------------------------
// Layout

// LayoutOpts select a layout policy.
type LayoutOpts struct {
	Scramble bool
	CRLF     bool
	OneLine  bool // everything on one source line (a blank between lexemes), except where a line break is required
	R        *rand.Rand
}

func isWordRune(r rune) bool { return unicode.IsLetter(r) || unicode.IsDigit(r) || r == '_' }

// needSep reports whether gluing b directly after a could change tokenisation.
// Conservative: glue only around the plain delimiters.
func needSep(a, b string) bool {
	if a == "" || b == "" {
		return false
	}
	la, _ := utf8.DecodeLastRuneInString(a)
	fb, _ := utf8.DecodeRuneInString(b)
	delim := func(r rune) bool { return strings.ContainsRune("(){}[],:", r) }
	if delim(la) && (delim(fb) || isWordRune(fb)) {
		return false
	}
	if delim(fb) && isWordRune(la) {
		return false
	}
	return true
}

var commentWords = []string{"note", "TODO fix", "script Foo {", "\"quoted\"", "}", "if (flag(X)) {", "`", "end", "// nested", "# nested", "ポケモン", "", "caf\uFFFD au lait", "\u2028x", "\uFEFF", "2 potions are handed out below", "100 steps", "7 \"other.pory\"", "line 3", "pasted note:\rgoto(Elsewhere)", "cr\r"}

// Layout renders the lexemes to text, recording positions.
func (p *Printed) Layout(o LayoutOpts) {
	var sb strings.Builder
	line, col, rcol := 1, 0, 0
	nlStr := "\n"
	if o.CRLF {
		nlStr = "\r\n"
	}
	writeRaw := func(s string) {
		sb.WriteString(s)
		for _, r := range s {
			if r == '\n' {
				line++
				col, rcol = 0, 0
			} else {
				col += utf8.RuneLen(r)
				rcol++
			}
		}
	}
	sep := func(prev *Lex, next string) {
		if prev.Glue {
			return
		}
		if !o.Scramble {
			if prev.NewLine {
				writeRaw(nlStr)
				return
			}
			if o.OneLine {
				writeRaw(" ")
				return
			}
			if prev.NL && !prev.SameLine && !prev.NoComment {
				writeRaw(nlStr)
			} else {
				writeRaw(" ")
			}
			return
		}
		r := o.R
		n := 1 + r.IntN(3)
		wrote := false
		hadNL := false
		for i := 0; i < n; i++ {
			k := r.IntN(12)
			switch {
			case k < 4:
				writeRaw(" ")
				wrote = true
			case k == 4:
				writeRaw("\t")
				wrote = true
			case k == 5:
				writeRaw("  ")
				wrote = true
			case k < 9:
				if prev.SameLine {
					writeRaw(" ")
				} else {
					writeRaw(nlStr)
					hadNL = true
				}
				wrote = true
			case k < 11:
				if prev.SameLine || prev.NoComment {
					writeRaw(" ")
				} else {
					lead := []string{" #", " //", "#", "//"}[r.IntN(4)]
					if !wrote && lead[0] != ' ' && needSep(prev.S, "/") {
						lead = " " + lead
					}
					writeRaw(lead + " " + commentWords[r.IntN(len(commentWords))] + nlStr)
					hadNL = true
				}
				wrote = true
			default:
				// nothing
			}
		}
		if prev.NewLine && !hadNL {
			writeRaw(nlStr)
			wrote = true
		}
		if !wrote && needSep(prev.S, next) {
			writeRaw(" ")
		}
	}
	if o.Scramble && o.R.IntN(3) == 0 {
		writeRaw([]string{"\n", "# header comment" + nlStr, "  ", "// c" + nlStr + nlStr}[o.R.IntN(4)])
	}
	for i := range p.Lex {
		lx := &p.Lex[i]
		if i > 0 {
			sep(&p.Lex[i-1], lx.S)
		}
		lx.Line, lx.Col, lx.RuneCol, lx.Off = line, col, rcol, sb.Len()
		writeRaw(lx.S)
		lx.EndLine = line
	}
	if !o.Scramble || o.R.IntN(2) == 0 {
		writeRaw(nlStr)
	}
	if o.Scramble && o.R.IntN(4) == 0 {
		writeRaw("# trailing comment")
	}
	p.Src = sb.String()
	p.Lines = strings.Count(p.Src, "\n") + 1
}

// Source is a convenience: print + canonical layout.
func Source(p *Program) string {
	pr := Print(p)
	pr.Layout(LayoutOpts{})
	return pr.Src
}
