package spec

import (
	"fmt"
	"hash/fnv"
	"math/rand/v2"
	"strconv"
	"strings"
	"unicode/utf8"
)

// Profile steers the random generator.
type Profile struct {
	MaxDepth int
	MaxLen   int // statements per block
	// statement weights
	WCmd, WLabel, WGoto, WEnd, WIf, WWhile, WInfWhile, WDoWhile, WBreak, WContinue, WSwitch, WPory int
	MaxLeaves                                                                                      int     // > 1 enables compound conditions
	PAuto                                                                                          float64 // probability that a var-like leaf / switch operand is an AutoVar command
	PTextArg                                                                                       float64 // probability that a generated command carries an inline text
	PMovesArg                                                                                      float64
	PFormat                                                                                        float64 // of inline texts, fraction wrapped in format()
	NoFormatParams                                                                                 bool    // format() calls never carry explicit parameters
	PEndVariants                                                                                   float64 // of end/return statements, fraction spelled END / Return / ... (ordinary commands)
	PTyped                                                                                         float64 // of texts, fraction with a string type prefix
	RichArgs                                                                                       bool    // multi-token / odd-token arguments
	PEmptyBody                                                                                     float64
	AfterJump                                                                                      float64 // probability of generating statements after break/end/goto
	PElse                                                                                          float64
	MaxElif                                                                                        int
	MaxCases                                                                                       int
	PDefault                                                                                       float64
	PEmptyCase                                                                                     float64
	PScramble                                                                                      float64
	LeafKinds                                                                                      []string // allowed leaf kinds (default all three)
	ValueFn                                                                                        float64  // probability of value(...) on var comparisons
	UniqueOperands                                                                                 bool
	NoRedundantPar                                                                                 bool
	PoryKeys                                                                                       []string
	TextPool                                                                                       []string
	NoSharedResultVar, ASCIINames, NoEmptyArgs, SingleTokenOperands, MultiTokenCases               bool
	PFallback                                                                                      float64 // probability that a poryswitch has a `_` case (default 0.5)
	WCondGoto                                                                                      int     // weight of user-written goto_if_set/goto_if_unset commands (targets: labels of the same script)
	PCall                                                                                          float64 // probability that a command statement is `call(<external script>)`
	PReuseOperand                                                                                  float64 // probability that a leaf reuses the operand (and mostly the comparison) of an earlier leaf
	PRepeatAuto                                                                                    float64 // probability that an AutoVar leaf repeats the previous AutoVar command verbatim
	PoryContinueAnywhere                                                                           bool    // allow `continue` to end a poryswitch case that is not last in its block
}

// Gen is a generator instance for one program.
type Gen struct {
	R           *rand.Rand
	P           Profile
	Prog        *Program
	n           int
	labels      []string // labels of the current script
	gotos       []*Cmd
	condGotos   []*Cmd
	lastAuto    *Cmd
	prevLeaves  map[string][]*Leaf
	lastAutoVar string
	// lexical context
	loopDepth   int
	breakDepth  int
	depth       int
	owner       string
	VarCands    map[int]bool
	usedStep    int
	AllLabels   []string
	ExternNames []string
}

// NewGen makes a generator.
func NewGen(r *rand.Rand, p Profile) *Gen {
	if p.MaxDepth == 0 {
		p.MaxDepth = 3
	}
	if p.MaxLen == 0 {
		p.MaxLen = 4
	}
	if len(p.LeafKinds) == 0 {
		p.LeafKinds = []string{LeafFlag, LeafVar, LeafDefeated}
	}
	if p.MaxCases == 0 {
		p.MaxCases = 5
	}
	if len(p.TextPool) == 0 {
		p.TextPool = []string{"Hello", "Bye now", "Hello", "A b c", "Prize!", "x", "Pok\uFFFDmon é", "三上 不čĠ", "two lines\n   of text"}
	}
	g := &Gen{R: r, P: p, Prog: &Program{AutoVars: map[string]AutoVar{}, Switches: map[string]string{}}, VarCands: map[int]bool{0: true, 1: true}, prevLeaves: map[string][]*Leaf{}}
	return g
}

var suffixLetters = "abcdefghjkmnpqrstuvwxyz"

// Name returns a fresh identifier with the given prefix that never ends in
// `_<digits>` (so it cannot imitate a generated sub-label).
func (g *Gen) Name(prefix string) string {
	g.n++
	if !g.P.ASCIINames && g.R.IntN(12) == 0 {
		// identifiers may contain any Unicode letter: scripts, labels, texts, movements, marts, map
		// scripts, commands, flags and vars alike
		return fmt.Sprintf("%s%s%d%c", prefix, []string{"É", "ポ", "ß", "Ж", "č", "三", "Ġ", "Ż"}[g.R.IntN(8)], g.n, suffixLetters[g.R.IntN(len(suffixLetters))])
	}
	return fmt.Sprintf("%s%d%c", prefix, g.n, suffixLetters[g.R.IntN(len(suffixLetters))])
}

func (g *Gen) chance(p float64) bool { return g.R.Float64() < p }

// ValueInt maps a rendered comparison value to an integer: numeric literals to
// their value, anything else to a hash-derived number far from small ints.
func ValueInt(s string) int {
	s = strings.TrimSpace(s)
	if v, err := strconv.ParseInt(s, 0, 64); err == nil {
		return int(v)
	}
	hh := fnv.New32a()
	hh.Write([]byte(s))
	return 1000 + 3*int(hh.Sum32()%1000000)
}

func (g *Gen) noteValue(toks []string) {
	v := ValueInt(strings.Join(toks, " "))
	g.VarCands[v] = true
	g.VarCands[v-1] = true
	g.VarCands[v+1] = true
}

// Cands returns the sorted candidate var values.
func (g *Gen) Cands() []int {
	out := make([]int, 0, len(g.VarCands))
	for v := range g.VarCands {
		out = append(out, v)
	}
	// insertion sort (small)
	for i := 1; i < len(out); i++ {
		for j := i; j > 0 && out[j] < out[j-1]; j-- {
			out[j], out[j-1] = out[j-1], out[j]
		}
	}
	return out
}

// ---------------------------------------------------------------------------
// Commands and arguments

var plainArgPool = []string{"VAR_RESULT", "ITEM_POTION", "1", "0x4000", "0x1f", "0xabc", "-3", "MSGBOX_YESNO", "OBJ_EVENT_ID_PLAYER", "0", "42", "Ünï", "ポケ", "FLAG_TEMP_1"}
var oddTokPool = []string{"+", "-", "*", "==", "<", ">=", "!", "&&", "||", "if", "while", "global", "local", "true", "var", "flag", "default", "case", "[", "]", "=", "script", "text", "value", "@", "%", "0x1F", "007", "?", ":", "{", "}", "~", ".", ";", "$", "/", "TRUE", "false", "×", "…", "°", "“", "→"}

func (g *Gen) plainArg() *Arg {
	if !g.P.RichArgs {
		return &Arg{Toks: []string{plainArgPool[g.R.IntN(len(plainArgPool))]}}
	}
	n := 1 + g.R.IntN(3)
	var toks []string
	for i := 0; i < n; i++ {
		switch g.R.IntN(6) {
		case 0:
			toks = append(toks, oddTokPool[g.R.IntN(len(oddTokPool))])
		case 1:
			// nested parentheses, possibly with a comma inside
			toks = append(toks, "(", plainArgPool[g.R.IntN(len(plainArgPool))])
			if g.R.IntN(2) == 0 {
				toks = append(toks, ",", plainArgPool[g.R.IntN(len(plainArgPool))])
			}
			toks = append(toks, ")")
		default:
			toks = append(toks, plainArgPool[g.R.IntN(len(plainArgPool))])
		}
	}
	return &Arg{Toks: toks}
}

// Text makes an inline text value from the pool.
func (g *Gen) Text() *TextVal {
	t := &TextVal{ID: g.Prog.NewID()}
	s := g.P.TextPool[g.R.IntN(len(g.P.TextPool))]
	if g.chance(0.25) {
		// split into two parts
		k := 1 + g.R.IntN(len(s))
		for k < len(s) && !utf8.RuneStart(s[k]) {
			k++
		}
		if k < len(s) {
			t.Parts = []string{s[:k], s[k:]}
		}
	}
	if t.Parts == nil {
		t.Parts = []string{s}
	}
	if g.chance(0.2) {
		// more pieces than a layout usually has lines for: split every piece once more
		var ps []string
		for _, part := range t.Parts {
			k := len(part) / 2
			for k < len(part) && !utf8.RuneStart(part[k]) {
				k++
			}
			if k > 0 && k < len(part) && part[k-1] != '\\' {
				ps = append(ps, part[:k], part[k:])
			} else {
				ps = append(ps, part)
			}
		}
		t.Parts = ps
	}
	if g.chance(g.P.PTyped) {
		t.Type = []string{"ascii", "braille", "custom", "ascii", "braille", "text", "if", "format", "string"}[g.R.IntN(9)] // (a keyword directly before a quote is a string type too)
	}
	if g.chance(0.15) {
		last := len(t.Parts) - 1
		if t.Type == "ascii" {
			t.Parts[last] += `\0`
		} else {
			t.Parts[last] += "$"
		}
	}
	if g.chance(g.P.PFormat) {
		t.Format = &Format{}
		if !g.P.NoFormatParams && g.R.IntN(5) < 2 {
			g.formatParams(t.Format)
		}
	}
	return t
}

// formatParams gives a format() call explicit parameters: the two unnamed ones (font id and maximum line
// length, in either order) and/or named ones, in any order, with an optional trailing comma.
func (g *Gen) formatParams(f *Format) {
	font := []string{"1_latin_rse", "1_latin_frlg"}[g.R.IntN(2)]
	width := []int{40, 80, 100, 208, 300}[g.R.IntN(5)]
	lines := 1 + g.R.IntN(4)
	cursor := []int{5, 10, 20}[g.R.IntN(3)]
	q := func(s string) string { return `"` + s + `"` }
	named := []string{"fontId", "maxLineLength", "numLines", "cursorOverlapWidth"}
	switch g.R.IntN(6) {
	case 0:
		f.Params, f.FontID = []string{",", q(font)}, font
		named = named[2:]
	case 1:
		f.Params, f.MaxLineLength = []string{",", strconv.Itoa(width)}, width
		named = named[2:]
	case 2:
		f.Params, f.FontID, f.MaxLineLength = []string{",", q(font), ",", strconv.Itoa(width)}, font, width
		named = named[2:]
	case 3:
		f.Params, f.FontID, f.MaxLineLength = []string{",", strconv.Itoa(width), ",", q(font)}, font, width
		named = named[2:]
	default:
		f.Params = []string{","}
	}
	g.R.Shuffle(len(named), func(i, j int) { named[i], named[j] = named[j], named[i] })
	n := g.R.IntN(len(named) + 1)
	if len(f.Params) == 1 && n == 0 {
		n = 1
	}
	for i, nm := range named[:n] {
		if len(f.Params) > 1 {
			if i > 0 || f.Params[len(f.Params)-1] != "," {
				f.Params = append(f.Params, ",")
			}
		}
		switch nm {
		case "fontId":
			f.Params, f.FontID = append(f.Params, nm, "=", q(font)), font
		case "maxLineLength":
			f.Params, f.MaxLineLength = append(f.Params, nm, "=", strconv.Itoa(width)), width
		case "numLines":
			f.Params, f.NumLines = append(f.Params, nm, "=", strconv.Itoa(lines)), lines
		default:
			f.Params, f.CursorWidth = append(f.Params, nm, "=", strconv.Itoa(cursor)), cursor
		}
	}
	if n > 0 && g.R.IntN(6) == 0 {
		f.Params = append(f.Params, ",") // a trailing comma after a named parameter is allowed
	}
}

var stepPool = []string{"walk_left", "walk_right", "walk_up", "walk_down", "face_player", "delay_16", "jump_2_left"}

// Moves makes a small movement list.
func (g *Gen) Moves(maxLen int, allowEnd bool) []*ListElem {
	n := g.R.IntN(maxLen + 1)
	es := []*ListElem{}
	for i := 0; i < n; i++ {
		e := &ListElem{ID: g.Prog.NewID(), Name: stepPool[g.R.IntN(len(stepPool))]}
		if allowEnd && g.R.IntN(12) == 0 {
			e.Name = "step_end"
		}
		if g.R.IntN(4) == 0 {
			e.Mult = []string{"1", "2", "3", "0x2", "5"}[g.R.IntN(5)]
		}
		e.Comma = g.R.IntN(4) == 0
		es = append(es, e)
	}
	return es
}

// Cmd generates a fresh opaque command with a unique name.
func (g *Gen) Cmd() *Cmd {
	c := &Cmd{ID: g.Prog.NewID(), Name: g.Name("cmd")}
	if g.R.IntN(25) == 0 {
		// ordinary commands whose names merely start like control commands
		c.Name = g.Name([]string{"gotostd", "goto_ifx", "returnx", "endx", "callstd", "comparex", "switchx"}[g.R.IntN(7)])
	}
	if g.P.PCall > 0 && g.chance(g.P.PCall) {
		// a subroutine call to a script outside the file (an ordinary command for the compiler)
		c.Name = "call"
		c.Args = []*Arg{{Toks: []string{g.Name("Common_Elsewhere")}}}
		return c
	}
	n := g.R.IntN(4)
	if g.R.IntN(25) == 0 {
		n = 5 + g.R.IntN(8) // long argument lists
	}
	for i := 0; i < n; i++ {
		switch {
		case g.chance(g.P.PTextArg):
			c.Args = append(c.Args, &Arg{Text: g.Text()})
		case g.chance(g.P.PMovesArg):
			if len(g.P.PoryKeys) > 0 && g.R.IntN(3) == 0 {
				c.Args = append(c.Args, &Arg{Moves: g.ListWithPory(4, true, 0)})
			} else {
				c.Args = append(c.Args, &Arg{Moves: g.Moves(4, false)})
			}
		default:
			c.Args = append(c.Args, g.plainArg())
		}
	}
	if n == 0 && g.R.IntN(3) == 0 {
		c.EmptyParens = true
	}
	if n > 0 && !g.P.NoEmptyArgs && g.R.IntN(16) == 0 {
		// an empty argument: leading `(, a)`, interior `(a, , b)` or a trailing comma `(a, )`
		at := g.R.IntN(n + 1)
		args := append([]*Arg{}, c.Args[:at]...)
		args = append(args, &Arg{})
		c.Args = append(args, c.Args[at:]...)
	}
	return c
}

// AutoCmd generates an AutoVar command and registers its config.
func (g *Gen) AutoCmd() (*Cmd, string) {
	if g.lastAuto != nil && g.chance(g.P.PRepeatAuto) {
		// the very same command text again (its own node id, shared arguments)
		c := &Cmd{ID: g.Prog.NewID(), Name: g.lastAuto.Name, Args: g.lastAuto.Args, EmptyParens: g.lastAuto.EmptyParens}
		return c, g.lastAutoVar
	}
	if g.lastAuto != nil && g.chance(g.P.PRepeatAuto/2) {
		// the same configured command invoked again with other arguments
		if c, v, ok := g.autoCmdReuse(); ok {
			g.lastAuto, g.lastAutoVar = c, v
			return c, v
		}
	}
	c, v := g.autoCmdFresh()
	g.lastAuto, g.lastAutoVar = c, v
	return c, v
}

// autoCmdReuse invokes the previous AutoVar command's name with fresh
// arguments, respecting its configuration.
func (g *Gen) autoCmdReuse() (*Cmd, string, bool) {
	av, ok := g.Prog.AutoVars[g.lastAuto.Name]
	if !ok {
		return nil, "", false
	}
	c := g.Cmd()
	c.Name = g.lastAuto.Name
	if av.ArgPos < 0 {
		return c, av.VarName, true
	}
	for _, a := range c.Args {
		for _, t := range a.Toks {
			if t == "," {
				return nil, "", false
			}
		}
	}
	for len(c.Args) <= av.ArgPos {
		c.Args = append(c.Args, g.plainArg())
	}
	// no trailing empty argument (it would not count as an argument)
	if n := len(c.Args); c.Args[n-1].Text == nil && c.Args[n-1].Moves == nil && len(c.Args[n-1].Toks) == 0 {
		c.Args[n-1] = &Arg{Toks: []string{"7"}}
	}
	for _, a := range c.Args {
		for _, t := range a.Toks {
			if t == "," {
				return nil, "", false
			}
		}
	}
	v := g.Name("VAR_P")
	c.Args[av.ArgPos] = &Arg{Toks: []string{v}}
	c.EmptyParens = false
	return c, v, true
}

func (g *Gen) autoCmdFresh() (*Cmd, string) {
	c := g.Cmd()
	c.Name = g.Name("av")
	if g.lastAuto != nil && g.R.IntN(8) == 0 {
		// a command whose name differs from an earlier AutoVar command's only in letter case: a command of its own,
		// with its own configuration
		if v := strings.ToUpper(g.lastAuto.Name[:1]) + g.lastAuto.Name[1:]; v != g.lastAuto.Name {
			if _, taken := g.Prog.AutoVars[v]; !taken {
				c.Name = v
			}
		}
	}
	var varName string
	// argument position form needs a plain single-token argument
	plainIdx := -1
	for i, a := range c.Args {
		if a.Text == nil && a.Moves == nil && len(a.Toks) == 1 {
			plainIdx = i
		}
	}
	// a comma inside nested parentheses makes "the argument at position n"
	// ambiguous; the argument-position form is only used without such commas
	for _, a := range c.Args {
		for _, t := range a.Toks {
			if t == "," {
				plainIdx = -1
			}
		}
	}
	if plainIdx >= 0 && g.R.IntN(2) == 0 {
		v := g.Name("VAR_P")
		c.Args[plainIdx] = &Arg{Toks: []string{v}}
		if g.R.IntN(5) == 0 {
			// the argument at the position has several tokens: the compared var is the whole rendered argument
			c.Args[plainIdx] = &Arg{Toks: []string{v, "+", "1"}}
			v = v + " + 1"
		}
		av := AutoVar{ArgPos: plainIdx}
		if g.R.IntN(4) == 0 {
			av.VarName = "VAR_IGNORED_BECAUSE_OF_POSITION" // both keys in the config: the position wins
		}
		g.Prog.AutoVars[c.Name] = av
		varName = v
	} else {
		varName = g.Name("VAR_A")
		if !g.P.NoSharedResultVar && strings.HasPrefix(g.lastAutoVar, "VAR_A") && g.R.IntN(3) == 0 {
			// several commands report through one var (the shipped config uses VAR_RESULT for nearly all of them)
			varName = g.lastAutoVar
		}
		g.Prog.AutoVars[c.Name] = AutoVar{VarName: varName, ArgPos: -1}
	}
	return c, varName
}

// ---------------------------------------------------------------------------
// Conditions

var boolLits = []string{"true", "TRUE", "false", "FALSE"}
var cmpOps = []string{"==", "!=", "<", "<=", ">", ">="}
var valuePool = [][]string{{"0"}, {"1"}, {"2"}, {"5"}, {"0x10"}, {"-1"}, {"TIME_NIGHT"}, {"VAR_BASE", "+", "1"}, {"ITEM_COUNT"}, {"100"}, {"TRUE"}, {"false"}}

// rawValuePool: values only value( ... ) can hold (nested parentheses).
var rawValuePool = [][]string{{"(", "1", "+", "2", ")", "*", "2"}, {"MAC_VAL", "(", "3", ")"}, {"(", "ITEM_A", ")"}, {"A_FLAGS", "|", "(", "B_FLAGS", "&", "3", ")"}}

// LeafCond makes one leaf.
func (g *Gen) LeafCond() *Leaf {
	l := &Leaf{ID: g.Prog.NewID()}
	l.Kind = g.P.LeafKinds[g.R.IntN(len(g.P.LeafKinds))]
	switch l.Kind {
	case LeafFlag:
		l.Operand = []string{g.Name("FLAG_")}
	case LeafDefeated:
		l.Operand = []string{g.Name("TRAINER_")}
	case LeafVar:
		l.Operand = []string{g.Name("VAR_")}
	}
	if l.Kind != LeafAuto && g.chance(g.P.PReuseOperand) {
		// the same operand (and often the same comparison) as an earlier leaf of this kind
		if prev := g.prevLeaves[l.Kind]; len(prev) > 0 {
			q := prev[g.R.IntN(len(prev))]
			l.Operand = append([]string{}, q.Operand...)
			if g.R.IntN(3) != 0 {
				l.Bang, l.Op, l.Raw = q.Bang, q.Op, q.Raw
				l.Value = append([]string{}, q.Value...)
				if l.Kind == LeafVar {
					if l.Op == "" {
						g.noteValue([]string{"0"})
					} else {
						g.noteValue(RawValueToks(l))
					}
				}
				return l
			}
		}
	} else if l.Kind != LeafAuto {
		kind := l.Kind
		defer func() {
			if l.Kind == kind && len(l.Operand) > 0 {
				g.prevLeaves[kind] = append(g.prevLeaves[kind], l)
			}
		}()
	}
	if !g.P.SingleTokenOperands && l.Kind != LeafAuto && g.R.IntN(14) == 0 {
		// a raw number as operand (var(0x8004), flag(0x20 + 1), defeated(3)); unique per leaf
		g.n++
		l.Operand = []string{fmt.Sprintf("0x%X", 0x4000+g.n)}
	}
	if !g.P.SingleTokenOperands && g.R.IntN(8) == 0 {
		// an operand of several tokens (everything up to the closing parenthesis belongs to it)
		l.Operand = append(l.Operand, []string{"+", "-", "*"}[g.R.IntN(3)], []string{"1", "0x10", "OFFSET_A"}[g.R.IntN(3)])
	}
	if l.Kind == LeafVar && g.chance(g.P.PAuto) {
		l.Kind = LeafAuto
		l.Auto, _ = g.AutoCmd()
		l.Operand = nil
	}
	form := g.R.IntN(10)
	switch {
	case form < 3: // bare
	case form < 5:
		l.Bang = true
	default:
		if l.Kind == LeafFlag || l.Kind == LeafDefeated {
			l.Op = "=="
			if g.R.IntN(4) == 0 {
				l.Op = "!="
			}
			l.Value = []string{boolLits[g.R.IntN(4)]}
		} else {
			l.Op = cmpOps[g.R.IntN(len(cmpOps))]
			l.Value = valuePool[g.R.IntN(len(valuePool))]
			if g.chance(g.P.ValueFn) {
				l.Raw = true
				if g.R.IntN(4) == 0 {
					l.Value = rawValuePool[g.R.IntN(len(rawValuePool))]
				}
			}
		}
	}
	if l.Kind == LeafVar || l.Kind == LeafAuto {
		if l.Op == "" {
			g.noteValue([]string{"0"})
		} else {
			g.noteValue(RawValueToks(l))
		}
	}
	return l
}

// RawValueToks returns the tokens of the comparison value as the compiler is
// expected to render them (value(a b) with more than one token gets
// parentheses).
func RawValueToks(l *Leaf) []string {
	if l.Raw && len(l.Value) > 1 {
		out := []string{"("}
		out = append(out, l.Value...)
		return append(out, ")")
	}
	return l.Value
}

// CondTree makes a condition with up to maxLeaves leaves.
func (g *Gen) CondTree(maxLeaves int) Cond {
	if maxLeaves <= 1 {
		return g.wrap(g.LeafCond())
	}
	n := 1 + g.R.IntN(maxLeaves)
	return g.condN(n, 0)
}

func (g *Gen) wrap(c Cond) Cond {
	if !g.P.NoRedundantPar && g.R.IntN(8) == 0 {
		c = &Paren{X: c}
	}
	if !g.P.NoRedundantPar && g.R.IntN(10) == 0 {
		// a negated group around anything: one leaf (the only way to negate a comparison), another
		// negation, redundant parentheses
		c = &Not{X: c}
		if g.R.IntN(4) == 0 {
			c = &Not{X: c}
		}
	}
	return c
}

func (g *Gen) condN(n int, parentKind int) Cond {
	if n <= 1 {
		return g.wrap(g.LeafCond())
	}
	// split n leaves over k >= 2 children
	k := 2
	if n > 2 {
		k = 2 + g.R.IntN(min(n-1, 3))
	}
	sizes := make([]int, k)
	for i := range sizes {
		sizes[i] = 1
	}
	for i := 0; i < n-k; i++ {
		sizes[g.R.IntN(k)]++
	}
	kind := 1 + g.R.IntN(2) // 1 and, 2 or
	var xs []Cond
	for _, s := range sizes {
		xs = append(xs, g.condN(s, kind))
	}
	var c Cond
	if kind == 1 {
		c = &And{Xs: xs}
	} else {
		c = &Or{Xs: xs}
	}
	if g.R.IntN(6) == 0 {
		c = &Not{X: c}
	}
	return g.wrap(c)
}

// ---------------------------------------------------------------------------
// Statements

// Block generates a statement block. tailOK tells whether `continue` may be
// the last statement (the block is directly followed by `}`).
func (g *Gen) Block(tailOK bool) *Block {
	b := &Block{ID: g.Prog.NewID()}
	if g.chance(g.P.PEmptyBody) {
		return b
	}
	n := 1 + g.R.IntN(g.P.MaxLen)
	b.Stmts = g.stmts(n, tailOK)
	return b
}

func (g *Gen) stmts(n int, tailOK bool) []Stmt {
	var out []Stmt
	for i := 0; i < n; i++ {
		last := i == n-1
		st, stop := g.stmt(last && tailOK)
		if st == nil {
			continue
		}
		out = append(out, st)
		if cs, ok := st.(*CmdStmt); ok && cs.Cmd.Name == "goto" && len(cs.Cmd.Args) == 1 && cs.Cmd.Args[0].Toks[0] == "?" && g.R.IntN(5) == 0 {
			// a goto whose label is the very next statement (still a command of the script)
			l := &Label{ID: g.Prog.NewID(), Name: g.Name("LblNext")}
			g.labels = append(g.labels, l.Name)
			cs.Cmd.Args[0].Toks = []string{l.Name}
			out = append(out, l)
			continue
		}
		if stop && !g.chance(g.P.AfterJump) {
			break
		}
		if _, isCont := st.(*Continue); isCont {
			break
		}
	}
	return out
}

func (g *Gen) stmt(contOK bool) (Stmt, bool) {
	p := &g.P
	deep := g.depth >= p.MaxDepth
	w := []int{p.WCmd, p.WLabel, p.WGoto, p.WEnd, p.WIf, p.WWhile, p.WInfWhile, p.WDoWhile, p.WBreak, p.WContinue, p.WSwitch, p.WPory, p.WCondGoto}
	if deep {
		w[4], w[5], w[6], w[7], w[10], w[11] = 0, 0, 0, 0, 0, 0
	}
	if g.breakDepth == 0 {
		w[8] = 0
	}
	if g.loopDepth == 0 || !contOK {
		w[9] = 0
	}
	if len(p.PoryKeys) == 0 {
		w[11] = 0
	}
	tot := 0
	for _, x := range w {
		tot += x
	}
	if tot == 0 {
		return &CmdStmt{Cmd: g.Cmd()}, false
	}
	r := g.R.IntN(tot)
	k := 0
	for ; k < len(w); k++ {
		if r < w[k] {
			break
		}
		r -= w[k]
	}
	switch k {
	case 0:
		c := g.Cmd()
		if g.lastAuto != nil && g.chance(g.P.PRepeatAuto/3) {
			// a command configured as AutoVar command, used as an ordinary statement
			c.Name = g.lastAuto.Name
		}
		return &CmdStmt{Cmd: c}, false
	case 1:
		l := &Label{ID: g.Prog.NewID(), Name: g.Name("Lbl")}
		if g.R.IntN(5) == 0 {
			l.Scope = 1 + g.R.IntN(2)
		}
		g.labels = append(g.labels, l.Name)
		return l, false
	case 2:
		c := &Cmd{ID: g.Prog.NewID(), Name: "goto", Args: []*Arg{{Toks: []string{"?"}}}}
		g.gotos = append(g.gotos, c)
		return &CmdStmt{Cmd: c}, true
	case 3:
		if g.chance(g.P.PEndVariants) {
			// `END`, `Return`, ...: only the exact lower-case spellings end a script; these are ordinary commands
			return &CmdStmt{Cmd: &Cmd{ID: g.Prog.NewID(), Name: []string{"END", "End", "RETURN", "Return", "eNd", "GOTO"}[g.R.IntN(6)]}}, false
		}
		return &CmdStmt{Cmd: &Cmd{ID: g.Prog.NewID(), Name: []string{"end", "return"}[g.R.IntN(2)]}}, true
	case 4:
		return g.ifStmt(), false
	case 5:
		return g.whileStmt(false), false
	case 6:
		return g.whileStmt(true), false
	case 7:
		return g.doWhile(), false
	case 8:
		return &Break{ID: g.Prog.NewID()}, true
	case 9:
		return &Continue{ID: g.Prog.NewID()}, true
	case 10:
		return g.switchStmt(contOK), false
	case 11:
		return g.poryStmt(contOK), false
	case 12:
		c := &Cmd{ID: g.Prog.NewID(), Name: []string{"goto_if_set", "goto_if_unset"}[g.R.IntN(2)], Args: []*Arg{{Toks: []string{g.Name("FLAG_G")}}, {Toks: []string{"?"}}}}
		g.condGotos = append(g.condGotos, c)
		return &CmdStmt{Cmd: c}, false
	}
	return nil, false
}

func (g *Gen) cond() Cond { return g.CondTree(max(1, g.P.MaxLeaves)) }

func (g *Gen) ifStmt() *If {
	s := &If{ID: g.Prog.NewID()}
	g.depth++
	arms := 1
	if g.P.MaxElif > 0 {
		arms += g.R.IntN(g.P.MaxElif + 1)
		if g.R.IntN(12) == 0 {
			arms += 2 + g.R.IntN(3) // a long chain: elif arms that are neither the first nor the last
		}
	}
	for i := 0; i < arms; i++ {
		c := g.cond()
		s.Arms = append(s.Arms, &Arm{Cond: c, Body: g.Block(true)})
	}
	if g.chance(g.P.PElse) {
		s.Else = g.Block(true)
	}
	g.depth--
	return s
}

func (g *Gen) whileStmt(inf bool) *While {
	s := &While{ID: g.Prog.NewID()}
	g.depth++
	if !inf {
		s.Cond = g.cond()
	}
	g.loopDepth++
	g.breakDepth++
	s.Body = g.Block(true)
	g.loopDepth--
	g.breakDepth--
	g.depth--
	return s
}

func (g *Gen) doWhile() *DoWhile {
	s := &DoWhile{ID: g.Prog.NewID()}
	g.depth++
	g.loopDepth++
	g.breakDepth++
	s.Body = g.Block(true)
	g.loopDepth--
	g.breakDepth--
	s.Cond = g.cond()
	g.depth--
	return s
}

func (g *Gen) switchStmt(contOK bool) *Switch {
	s := &Switch{ID: g.Prog.NewID()}
	g.depth++
	if g.chance(g.P.PAuto) {
		s.Auto, _ = g.AutoCmd()
	} else {
		s.Operand = []string{g.Name("VAR_S")}
	}
	n := 1 + g.R.IntN(g.P.MaxCases)
	defAt := -1
	if g.chance(g.P.PDefault) {
		defAt = g.R.IntN(n)
	}
	used := map[string]bool{}
	g.breakDepth++
	for i := 0; i < n; i++ {
		c := &Case{ID: g.Prog.NewID()}
		if i == defAt {
			c.Default = true
		} else {
			for {
				var v []string
				if g.P.MultiTokenCases && g.R.IntN(8) == 0 {
					// a function-like macro with a comma inside its parentheses
					v = []string{"MAC_ID", "(", []string{"COLOR_RED", "COLOR_BLUE", "2"}[g.R.IntN(3)], ",", strconv.Itoa(g.R.IntN(3)), ")"}
				} else if g.P.MultiTokenCases && g.R.IntN(4) == 0 {
					v = []string{g.Name("BASE_"), "+", strconv.Itoa(g.R.IntN(4))}
				} else if g.R.IntN(12) == 0 {
					// boolean keywords are ordinary case values (typical after a yes/no box)
					v = []string{[]string{"TRUE", "FALSE", "true", "false"}[g.R.IntN(4)]}
				} else if g.R.IntN(4) == 0 {
					v = []string{g.Name("CASE_")}
				} else {
					v = []string{strconv.Itoa(g.R.IntN(12))}
				}
				key := strings.Join(v, " ")
				if !used[key] {
					used[key] = true
					c.Value = v
					g.noteValue(v)
					break
				}
			}
		}
		lastCase := i == n-1
		if len(g.P.PoryKeys) > 0 && g.P.WPory > 0 && g.R.IntN(10) == 0 {
			// the whole body is one poryswitch whose cases are (mostly) empty: when the selected case is empty the
			// switch case has no body and shares the next one's
			ps := g.poryStmt(false)
			for _, pc := range ps.Cases {
				if pc.Brace && g.R.IntN(3) != 0 {
					pc.Body = &Block{ID: g.Prog.NewID()}
				}
			}
			c.Body = &Block{ID: g.Prog.NewID(), Stmts: []Stmt{ps}}
		} else if g.chance(g.P.PEmptyCase) {
			c.Body = &Block{ID: g.Prog.NewID()}
		} else {
			saved := g.P.PEmptyBody
			g.P.PEmptyBody = 0
			c.Body = g.Block(lastCase)
			g.P.PEmptyBody = saved
		}
		s.Cases = append(s.Cases, c)
	}
	g.breakDepth--
	g.depth--
	return s
}

func (g *Gen) poryStmt(contOK bool) *PorySwitch {
	key := g.P.PoryKeys[g.R.IntN(len(g.P.PoryKeys))]
	s := &PorySwitch{ID: g.Prog.NewID(), Key: key}
	g.depth++
	cs := g.psCaseNames()
	for _, nm := range cs {
		c := &PSCase{Name: nm, Brace: g.R.IntN(2) == 0}
		if c.Brace {
			c.Body = g.Block(contOK || g.P.PoryContinueAnywhere)
		} else {
			// colon form: exactly one statement, and `continue` is never legal
			// there (it must be followed by `}`)
			b := &Block{ID: g.Prog.NewID()}
			lastCase := nm == cs[len(cs)-1]
			for len(b.Stmts) == 0 {
				st, _ := g.stmt(lastCase && g.P.PoryContinueAnywhere)
				if st != nil {
					b.Stmts = []Stmt{st}
				}
			}
			c.Body = b
		}
		s.Cases = append(s.Cases, c)
	}
	// the same label statement in two alternative cases is legal: at most one of them is compiled
	if len(s.Cases) >= 2 && g.R.IntN(4) == 0 {
		name := g.Name("LblAlt")
		n := 0
		for _, c := range s.Cases {
			if c.Brace && n < 2 {
				c.Body.Stmts = append([]Stmt{&Label{ID: g.Prog.NewID(), Name: name}}, c.Body.Stmts...)
				n++
			}
		}
		if n > 0 {
			g.labels = append(g.labels, name)
		}
	}
	g.depth--
	return s
}

// ScriptBody generates the body of one script / inline map script and
// resolves its gotos.
func (g *Gen) ScriptBody(owner string) *Block {
	g.labels, g.gotos, g.condGotos = nil, nil, nil
	g.owner = owner
	g.depth, g.loopDepth, g.breakDepth = 0, 0, 0
	b := &Block{ID: g.Prog.NewID()}
	n := 1 + g.R.IntN(g.P.MaxLen+1)
	if g.chance(g.P.PEmptyBody / 2) {
		n = 0
	}
	b.Stmts = g.stmts(n, true)
	for _, c := range g.gotos {
		if c.Args[0].Toks[0] != "?" {
			continue // already bound to the label that follows it
		}
		if len(g.labels) > 0 && g.R.IntN(5) != 0 {
			c.Args[0].Toks = []string{g.labels[g.R.IntN(len(g.labels))]}
		} else {
			c.Args[0].Toks = []string{g.Name("Elsewhere")}
		}
	}
	for _, c := range g.condGotos {
		if len(g.labels) > 0 {
			c.Args[1].Toks = []string{g.labels[g.R.IntN(len(g.labels))]}
		} else {
			// no label to target: make it an ordinary command
			c.Name = g.Name("cmd")
			c.Args[1].Toks = []string{"1"}
		}
	}
	g.AllLabels = append(g.AllLabels, g.labels...)
	return b
}

// Script generates one script item.
func (g *Gen) Script() *Script {
	s := &Script{ID: g.Prog.NewID(), Name: g.Name("Scr")}
	if g.R.IntN(4) == 0 {
		s.Scope = 1 + g.R.IntN(2)
	}
	s.Body = g.ScriptBody(s.Name)
	return s
}

func min(a, b int) int {
	if a < b {
		return a
	}
	return b
}
func max(a, b int) int {
	if a > b {
		return a
	}
	return b
}

// ---------------------------------------------------------------------------
// Top-level items other than scripts

// TextStmt generates a `text` statement (optionally with a poryswitch).
func (g *Gen) TextStmt() *TextItem {
	t := &TextItem{ID: g.Prog.NewID(), Name: g.Name("Txt")}
	if g.R.IntN(3) == 0 {
		t.Scope = 1 + g.R.IntN(2)
	}
	if len(g.P.PoryKeys) > 0 && g.R.IntN(3) == 0 {
		ps := &PSText{Key: g.P.PoryKeys[g.R.IntN(len(g.P.PoryKeys))]}
		for _, nm := range g.psCaseNames() {
			ps.Cases = append(ps.Cases, &PSTextCase{Name: nm, Brace: g.R.IntN(2) == 0, Val: g.Text()})
		}
		t.PS = ps
	} else {
		t.Val = g.Text()
	}
	return t
}

func (g *Gen) psCaseNames() []string {
	names := []string{"RUBY", "SAPPHIRE", "EMERALD", "1", "2", "-1", "0x10"}
	g.R.Shuffle(len(names), func(i, j int) { names[i], names[j] = names[j], names[i] })
	cs := append([]string{}, names[:1+g.R.IntN(3)]...)
	if g.chance(g.pFallback()) {
		if g.R.IntN(8) == 0 {
			cs = nil // `_` is the only case
		}
		cs = append(cs, "_")
		g.R.Shuffle(len(cs), func(i, j int) { cs[i], cs[j] = cs[j], cs[i] })
	}
	return cs
}

// ListWithPory generates a step/item list, possibly with nested poryswitches.
func (g *Gen) ListWithPory(maxLen int, movement bool, depth int) []*ListElem {
	es := []*ListElem{}
	n := g.R.IntN(maxLen + 1)
	for i := 0; i < n; i++ {
		if len(g.P.PoryKeys) > 0 && depth < 2 && g.R.IntN(6) == 0 {
			ps := &PSList{Key: g.P.PoryKeys[g.R.IntN(len(g.P.PoryKeys))]}
			for _, nm := range g.psCaseNames() {
				c := &PSListCase{Name: nm, Brace: g.R.IntN(2) == 0}
				if c.Brace {
					c.Elems = g.ListWithPory(3, movement, depth+1)
				} else {
					// colon form holds exactly one element
					// (the one element may itself be a poryswitch)
					for len(c.Elems) != 1 {
						c.Elems = g.ListWithPory(1, movement, depth+1)
					}
					c.Elems[0].Comma = false
				}
				ps.Cases = append(ps.Cases, c)
			}
			es = append(es, &ListElem{ID: g.Prog.NewID(), PS: ps})
			continue
		}
		e := &ListElem{ID: g.Prog.NewID()}
		if movement {
			e.Name = stepPool[g.R.IntN(len(stepPool))]
			if g.R.IntN(15) == 0 {
				e.Name = "step_end"
			}
			if g.R.IntN(4) == 0 {
				e.Mult = []string{"1", "2", "3", "0x2", "5", "9"}[g.R.IntN(6)]
			}
			e.Comma = g.R.IntN(4) == 0
		} else {
			e.Name = []string{"ITEM_POTION", "ITEM_POKE_BALL", "ITEM_RARE_CANDY", "ITEM_LEMONADE", "ITEM_NONE", "ITEM_X", "DECOR_PIKA_CUSHION", "DECOR_NONE"}[g.R.IntN(8)]
			if e.Name == "ITEM_NONE" && g.R.IntN(3) != 0 {
				e.Name = "ITEM_REPEL"
			}
		}
		es = append(es, e)
	}
	return es
}

// MovementStmt generates a movement statement.
func (g *Gen) MovementStmt() *MovementItem {
	m := &MovementItem{ID: g.Prog.NewID(), Name: g.Name("Mov")}
	if g.R.IntN(3) == 0 {
		m.Scope = 1 + g.R.IntN(2)
	}
	m.Steps = g.ListWithPory(6, true, 0)
	return m
}

// MartStmt generates a mart statement.
func (g *Gen) MartStmt() *MartItem {
	m := &MartItem{ID: g.Prog.NewID(), Name: g.Name("Mart")}
	if g.R.IntN(3) == 0 {
		m.Scope = 1 + g.R.IntN(2)
	}
	m.Items = g.ListWithPory(6, false, 0)
	return m
}

var mapScriptTypes = []string{"MAP_SCRIPT_ON_LOAD", "MAP_SCRIPT_ON_TRANSITION", "MAP_SCRIPT_ON_RESUME", "MAP_SCRIPT_ON_FRAME_TABLE", "MAP_SCRIPT_ON_WARP_INTO_MAP_TABLE", "MAP_SCRIPT_ON_DIVE_WARP", "MAP_SCRIPT_ON_RETURN_TO_FIELD", "MAP_SCRIPT_X", "MAP_SCRIPT_ON_WARP_INTO_MAP", "MAP_SCRIPT_ON_FRAME"}

// MapScriptsStmt generates a mapscripts statement.
func (g *Gen) MapScriptsStmt() *MapScripts {
	m := &MapScripts{ID: g.Prog.NewID(), Name: g.Name("Map")}
	if g.R.IntN(3) == 0 {
		m.Scope = 1 + g.R.IntN(2)
	}
	types := append([]string{}, mapScriptTypes...)
	g.R.Shuffle(len(types), func(i, j int) { types[i], types[j] = types[j], types[i] })
	n := g.R.IntN(6)
	for i := 0; i < n; i++ {
		e := &MSEntry{ID: g.Prog.NewID(), Type: types[i], Kind: g.R.IntN(3)}
		switch e.Kind {
		case 0:
			e.Label = g.Name("Target")
		case 1:
			e.Body = g.ScriptBody(m.Name + "_" + e.Type)
		case 2:
			rows := g.R.IntN(5)
			for j := 0; j < rows; j++ {
				r := &MSRow{ID: g.Prog.NewID(), Var: []string{g.Name("VAR_T")}, Value: []string{strconv.Itoa(g.R.IntN(5))}}
				if g.R.IntN(5) == 0 {
					r.Value = []string{g.Name("VAL_"), "+", "1"}
				}
				if g.R.IntN(2) == 0 {
					r.Body = g.ScriptBody(fmt.Sprintf("%s_%s_%d", m.Name, e.Type, j))
				} else {
					r.Label = g.Name("Target")
				}
				e.Rows = append(e.Rows, r)
			}
		}
		m.Entries = append(m.Entries, e)
	}
	return m
}

// RawStmt generates a raw statement that defines its own data label.
func (g *Gen) RawStmt() *Raw {
	r := &Raw{ID: g.Prog.NewID(), TickSame: g.R.IntN(2) == 0}
	lbl := g.Name("RawData")
	r.Lines = []string{"", lbl + ":", "\t.byte " + strconv.Itoa(g.R.IntN(9)), "\t.4byte " + lbl}
	if g.R.IntN(3) == 0 {
		r.Lines = []string{lbl + "::", "    .string \"raw text$\""}
	}
	switch g.R.IntN(6) {
	case 0:
		r.Lines = append([]string{"", ""}, r.Lines...) // blank lines first
	case 1:
		r.Pad = []string{"  ", "\n", "\n\n  \t", " \n"}[g.R.IntN(4)] // trailing white space is not content
	}
	return r
}

// FullProgram generates a file with a random mix of top-level statements.
func (g *Gen) FullProgram(nItems int) *Program {
	for i := 0; i < nItems; i++ {
		switch k := g.R.IntN(12); {
		case k < 5:
			g.Prog.Items = append(g.Prog.Items, g.Script())
		case k < 7:
			g.Prog.Items = append(g.Prog.Items, g.TextStmt())
		case k < 8:
			g.Prog.Items = append(g.Prog.Items, g.MovementStmt())
		case k < 9:
			g.Prog.Items = append(g.Prog.Items, g.MartStmt())
		case k < 11:
			g.Prog.Items = append(g.Prog.Items, g.MapScriptsStmt())
		default:
			g.Prog.Items = append(g.Prog.Items, g.RawStmt())
		}
	}
	for _, key := range g.P.PoryKeys {
		g.Prog.Switches[key] = []string{"RUBY", "SAPPHIRE", "EMERALD", "1", "2", "OTHER", "-1", "0x10"}[g.R.IntN(8)]
	}
	return g.Prog
}

func (g *Gen) pFallback() float64 {
	if g.P.PFallback == 0 {
		return 0.5
	}
	return g.P.PFallback
}
