package c18

import "strings"

// The hand-written corpus of VALID poryscript programs (class 1) that is also
// the seed material for the token-level mutations and truncations. The
// character '~' stands for a back-tick (Go raw strings cannot contain one).
//
// Every program must be accepted by the unmodified compiler under the "full
// environment" (switches GAME_VERSION=RUBY, LANGUAGE=GERMAN, V=A; the stock
// font_config.json; the AutoVar command config below). A rejection under the
// full environment makes the run inconclusive (corpus no longer valid), never
// a violation.

type corpusProg struct {
	name string
	src  string
}

func bt(s string) string { return strings.ReplaceAll(s, "~", "`") }

var corpusRaw = []corpusProg{
	{"readme-toplevel", `
mapscripts MyMap_MapScripts {
}

script MyScript {
    lock
    faceplayer
    release
    end
}

text MyText {
    "Hi, I'm some text.\n"
    "I'm global and can be accessed in C code."
}

movement MyMovement {
    walk_left
    walk_right * 3
}

mart MyMart {
    ITEM_POTION
    ITEM_POKEBALL
}

raw ~
MyLocalText:
    .string "I'm directly included.$"
~
`},
	{"if-elif-else", `
script MyScript {
    # Show a different message, depending on the state of different flags.
    lock
    faceplayer
    if (flag(FLAG_RECEIVED_TOP_PRIZE)) {
        msgbox("You received the best prize!")
    } elif (flag(FLAG_RECEIVED_WORST_PRIZE)) {
        msgbox("Ouch, you received the worst prize.")
    } elif (var(VAR_PRIZE) == 3) {
        msgbox("Third prize.", MSGBOX_DEFAULT)
    } else {
        msgbox("Hmm, you didn't receive anything.")
    }
    release
    end
}
`},
	{"nested-if-operators", `
script Ops {
    if (flag(FLAG_TEMP) == true) {
        if (var(VAR_BADGES) < 8) {
            a
        } else {
            b
        }
    }
    if (flag(FLAG_1) == false) { c }
    if (flag(FLAG_1) == TRUE) { c1 }
    if (flag(FLAG_1) == FALSE) { c2 }
    if (!flag(FLAG_1)) { d }
    if (var(VAR_1)) { e }
    if (!var(VAR_1)) { f }
    if (var(VAR_1) != 0) { g }
    if (var(VAR_1) == VAR_2) { h }
    if (var(VAR_1) > 4) { i }
    if (var(VAR_1) >= 4) { j }
    if (var(VAR_1) <= VAR_FOO + BASE_OFFSET) { k }
    if (defeated(TRAINER_GARY)) { l }
    if (!defeated(TRAINER_GARY)) { m }
    if (defeated(TRAINER_GARY) == true) { n }
    if (defeated(TRAINER_GARY) == false) { o }
    if (defeated(TRAINER_GARY) != false) { p }
    if (flag(FLAG_2) != true) { q }
}
`},
	{"compound-conditions", `
script Compound {
    # Basic AND of two conditions.
    if (!defeated(TRAINER_MISTY) && var(VAR_TIME) != DAY) {
        msgbox("The Cerulean Gym's doors don't\n"
               "open until morning.")
    }
    # Group nested conditions together with another set of parentheses.
    if (flag(FLAG_IS_CHAMPION) && !(flag(FLAG_SYS_TOWER_GOLD) || flag(FLAG_SYS_DOME_GOLD))) {
        msgbox("You should try to beat the\n"
               "Battle Tower or Battle Dome!")
    }
    if (flag(A) || flag(B) || var(C) == 2) { x }
    if (flag(A) && flag(B) && flag(C)) { y }
    if ((flag(A) || flag(B)) && (var(C) < 3 || !flag(D))) { z }
    if (!(flag(A) && flag(B))) { w }
    if (((flag(A)))) { v }
    while (flag(A) && !(var(B) >= 2 || defeated(T))) { u }
    do { t } while (flag(A) || flag(B) && var(C) != 1)
}
`},
	{"while-loops", `
script Loops {
    msgbox("Do you agree to the quest?", MSGBOX_YESNO)
    while (var(VAR_RESULT) != 1) {
        msgbox("...How about now?", MSGBOX_YESNO)
    }
    setvar(VAR_QUEST_ACCEPTED, 1)
    while {
        msgbox("Want to see this message again?", MSGBOX_YESNO)
        if (var(VAR_RESULT) != 1) {
            break
        }
    }
    while (flag(FLAG_A)) {
        addvar(VAR_I, 1)
        if (var(VAR_I) > 10) {
            break
        }
        if (var(VAR_I) == 5) {
            continue
        }
        nop
    }
    while (var(VAR_J) < 3) {
        while (var(VAR_K) < 3) {
            addvar(VAR_K, 1)
            continue
        }
        addvar(VAR_J, 1)
    }
}
`},
	{"do-while", `
script DoWhile {
    # Force player to answer "Yes" to NPC question.
    do {
        msgbox("Can you help me solve the puzzle?", MSGBOX_YESNO)
    } while (var(VAR_RESULT) == 0)
    do {
        addvar(VAR_I, 1)
        if (flag(FLAG_STOP)) {
            break
        }
        if (flag(FLAG_SKIP)) {
            continue
        }
        step
    } while (var(VAR_I) < 10 && !flag(FLAG_DONE))
    do { } while (flag(F))
}
`},
	{"switch-basic", `
script Switch {
    switch (var(VAR_NUM_THINGS)) {
        case 0:
            msgbox("You have 0 things.")
        case 1:
        case 2:
            msgbox("You have 1 or 2 things.")
        case 3:
            break
        case VAR_OTHER + 1:
            a
            break
        default:
            msgbox("You have at least 3 things.")
    }
    release
}
`},
	{"switch-nested-loops", `
script SwitchLoops {
    while (var(VAR_I) < 5) {
        switch (var(VAR_I)) {
            case 0:
                switch (var(VAR_J)) {
                    case 1: inner1
                    case 2:
                    default: innerd
                }
            case 1:
                if (flag(FLAG_X)) {
                    break
                }
                after_if
            default:
                addvar(VAR_I, 1)
        }
        addvar(VAR_I, 1)
        if (flag(FLAG_Y)) {
            continue
        }
        tail
    }
    end
}
`},
	{"labels-goto", `
// Note, this is a bad example of where a
// label would be useful.
script MyScript {
    lockall
    if (flag(FLAG_TEST)) {
        goto(MyScript_End)
    } elif (flag(FLAG_OTHER_TEST)) {
        addvar(VAR_SCORE, 1)
        goto(MyScript_End)
    }
    goto(MyScript_Global)

MyScript_End:
    releaseall
MyScript_Global(global):
    nop
MyScript_Local(local):
    end
}
`},
	{"text-statements", `
script Texts {
    msgbox(MyText)
    msgbox(ascii"inline ascii")
    msgbox(braille"inline braille")
    msgbox(custom"inline custom", "second string$")
}

text MyText {
    "Hello, there.\p"
    "You can refer to me in scripts or C code."
}

text(local) LocalText {
    "local"
}

text(global) GlobalText {
    "already terminated$"
}

text AsciiText {
    ascii"My ASCII string."
}

text BrailleText { braille"dots" }
text CustomText { custom"My Custom string." }
text EmptyText { "" }
`},
	{"format-forms", `
script Formats {
    msgbox(format("Hello, this is some long text that I want Poryscript to automatically format for me."))
    msgbox(format("Hello, are you the real-live legendary {PLAYER} that everyone talks about?\pAmazing!\pSo glad to meet you!", "1_latin_rse"))
    msgbox(format("Positional font and length, positional font and length.", "1_latin_frlg", 100))
    msgbox(format("Positional length then font, positional length then font.", 100, "1_latin_rse"))
    msgbox(format("Only a positional length in this one, only a length.", 80))
    msgbox(format("This is an example of named parameters!", numLines=3, maxLineLength=100))
    msgbox(format("All named parameters are given in this call.", fontId="1_latin_frlg", maxLineLength=120, numLines=4, cursorOverlapWidth=10))
    msgbox(format("Mixed positional and named.", "1_latin_rse", numLines=1,))
    msgbox(format(ascii"typed formatted string with several words in it", 40))
    msgbox(format("You are my favorite trainer!\N...\N...\N...\NBut I'm better!"))
    msgbox(format("{COLOR BLUE}colored {PLAYER}{KUN} text\lwith manual\nbreaks\pand more"), MSGBOX_NPC)
}

text MyText {
    format("Hello, are you the real-live legendary {PLAYER} that everyone talks about?\p"
           "Amazing!\pSo glad to meet you!")
}

text MyText2 {
    format(braille"dots and more dots and yet more dots", "1_latin_rse", 30)
}
`},
	{"movement", `
script MyScript {
    lock
    applymovement(2, MyMovement)
    waitmovement(0)
    applymovement(2, moves(
        walk_left
        walk_up * 5
        face_down
    ))
    applymovement(3, moves(walk_left walk_up * 5 face_down))
    applymovement(4, moves(walk_left, walk_up * 5, face_down))
    applymovement(5, moves(jump, step_end, never))
    applymovement(6, moves())
    release
}
movement MyMovement {
    walk_left
    walk_up * 5
    face_down
}
movement(global) GlobalMovement {
    walk_down * 1, walk_down * 2,
    step_end
    walk_never
}
movement(local) LocalMovement { }
`},
	{"mart", `
script ScriptWithPokemart {
	lock
	message("Welcome to my store.")
	waitmessage
	pokemart(MyMartItems)
	msgbox("Come again soon.")
	release
}

mart MyMartItems {
	ITEM_LAVA_COOKIE
	ITEM_MOOMOO_MILK
	ITEM_RARE_CANDY
	ITEM_LEMONADE
	ITEM_BERRY_JUICE
}

mart(global) EarlyEnd {
	ITEM_A
	ITEM_NONE
	ITEM_IGNORED
}

mart(local) EmptyMart { }
`},
	{"mapscripts", `
mapscripts MyNewCity_MapScripts {
    MAP_SCRIPT_ON_RESUME: MyNewCity_OnResume
    MAP_SCRIPT_ON_TRANSITION {
        random(2)
        switch (var(VAR_RESULT)) {
            case 0: setweather(WEATHER_ASH)
            case 1: setweather(WEATHER_RAIN_HEAVY)
        }
    }
    MAP_SCRIPT_ON_FRAME_TABLE [
        VAR_TEMP_0, 0: MyNewCity_OnFrame_0
        VAR_TEMP_0, 1 {
            lock
            msgbox("This script is inlined.")
            setvar(VAR_TEMP_0, 2)
            release
        }
        VAR_TEMP_1 + 1, 2 + 3: MyNewCity_OnFrame_0
    ]
    MAP_SCRIPT_ON_WARP_INTO_MAP_TABLE [
    ]
}

mapscripts(local) Other_MapScripts {}

mapscripts(global) Third_MapScripts {
    MAP_SCRIPT_ON_LOAD { end }
}

script MyNewCity_OnResume {
    end
}

script MyNewCity_OnFrame_0 {
    return
}
`},
	{"raw", `
raw ~
TestMap_MapScripts::
	.byte 0
~

script MyScript {
    lock
    faceplayer
    # Text can span multiple lines. Use a new set of quotes for each line.
    msgbox("This is shorter text,\n"
           "but we can still put it\l"
           "on multiple lines.")
    applymovement(OBJ_EVENT_ID_PLAYER, MyScript_Movement)
    waitmovement(0)
    msgbox(MyScript_LongText)
    release
    end
}

raw ~
MyScript_Movement:
    walk_left
    walk_down
    step_end

MyScript_LongText:
    .string "Hi, there.\p"
    .string "This text is too long\n"
    .string "to inline above.$"
~
raw ~~
raw ~one line~
`},
	{"const", `
const PROF_BIRCH_ID = 3
const ASSISTANT_ID = PROF_BIRCH_ID + 1
const FLAG_GREETED_BIRCH = FLAG_TEMP_2
const CONSTANT = 1

mapscripts MyMapScripts {
    MAP_SCRIPT_ON_FRAME_TABLE [
        CONSTANT, CONSTANT: MyOnFrameScript_0
    ]
}

script ProfBirchScript {
    applymovement(PROF_BIRCH_ID, moves(walk_left * 4, face_down))
    showobject(ASSISTANT_ID)
    setflag(FLAG_GREETED_BIRCH)
    somecommand(CONSTANT)
    if (flag(CONSTANT)) {}
    if (var(CONSTANT) == CONSTANT) {}
    if (defeated(CONSTANT)) {}
    switch (var(CONSTANT)) {
        case CONSTANT: break
    }
}

mart ConstMart {
    CONSTANT
    ITEM_X
}
const LAST = (1 + 2)
`},
	{"poryswitch-script", `
script MyScript {
    lock
    faceplayer
    poryswitch(GAME_VERSION) {
        RUBY {
            msgbox("Here, take this Ruby Orb.")
            giveitem(ITEM_RUBY_ORB)
        }
        SAPPHIRE {
            msgbox("Here, take this Sapphire Orb.")
            giveitem(ITEM_SAPPHIRE_ORB)
        }
        _: msgbox(format("This case is used when GAME_VERSION doesn't match either of the above."))
    }
    poryswitch(LANGUAGE) {
        GERMAN: msgbox("Hallo")
        ENGLISH { }
        _ {
            poryswitch(V) {
                A: nested_a
                B { nested_b }
                _: nested_fallback
            }
        }
    }
    poryswitch(V) {
        A {
            if (flag(F)) {
                poryswitch(LANGUAGE) { GERMAN: de _: other }
            }
        }
        1: numeric_case
        _ { }
    }
    release
}
`},
	{"poryswitch-text", `
text MyText {
    poryswitch(LANGUAGE) {
        GERMAN:  "Hallo. Ich spreche Deutsch."
        ENGLISH: "Hello. I speak English."
        _: "fallback"
    }
}
text MyText2 {
    poryswitch(LANGUAGE) {
        GERMAN { format("Hallo. Ich spreche Deutsch, und zwar ziemlich lange am Stueck.") }
        ENGLISH { ascii"Hello." }
        _ { "fallback" }
    }
}
script UsesText { msgbox(MyText) msgbox(MyText2) }
`},
	{"poryswitch-movement", `
movement MyMovement {
    face_player
    walk_down
    poryswitch(GAME_VERSION) {
        RUBY: walk_left * 2
        SAPPHIRE {
            walk_right * 2
            walk_left * 4
        }
        _ { }
    }
    poryswitch(V) {
        A {
            poryswitch(LANGUAGE) { GERMAN: de_step _: other_step }
            after_nested
        }
        _: fallback_step
    }
    step_after
}
script Inline {
    applymovement(1, moves(a poryswitch(V) { A: b _: c } d))
}
`},
	{"poryswitch-mart", `
mart MyMart {
    ITEM_POTION
    ITEM_POKEBALL
    poryswitch(GAME_VERSION) {
        RUBY {
            ITEM_LAVA_COOKIE
            ITEM_RED_SCARF
        }
        SAPPHIRE {
            ITEM_FRESH_WATER
            ITEM_BLUE_SCARF
        }
        _: ITEM_FALLBACK
    }
    poryswitch(V) { A: ITEM_A _ { poryswitch(LANGUAGE) { GERMAN: ITEM_DE _: ITEM_XX } } }
    ITEM_LAST
}
`},
	{"autovar", `
script AutoVars {
    if (checkitem(ITEM_POKEBLOCK_CASE)) {
        if (specialvar(VAR_RESULT, GetFirstFreePokeblockSlot) != -1 &&
            specialvar(VAR_RESULT, PlayerHasBerries)
        ) {
            msgbox("Great! You can use the Berry Blender!")
        }
    } else {
        msgbox("You don't have a Pokeblock case!")
    }
    if (checkitem(ITEM_ROOT_FOSSIL) == TRUE) {
        has_fossil
    }
    while (random(4) < 2 || getpartysize > 3) {
        again
    }
    switch (random(3)) {
        case 0: zero
        case 1: one
        default: other
    }
    switch (specialvar(VAR_0x8004, Foo)) {
        case 1: a
    }
    switch (getpartysize) {
        case 6: full
    }
    do { x } while (!checkcoins(VAR_TEMP_1))
    if (yesnobox(20, 8) == YES && !random(2)) { y }
    if (checkitem(ITEM_A, format("formatted text inside an autovar command, long enough to wrap around."), moves(m1 m2))) { z }
}
`},
	{"value-operator", `
script Values {
    if (var(VAR_DAMAGE_DEALT) >= value(0x4000)) { a }
    if (var(VAR_X) == value((1 + 2) * 3)) { b }
    if (var(VAR_X) != value(FOO)) { c }
    while (var(VAR_X) < value(0x8000) && flag(F)) { d }
    if (random(10) > value(5)) { e }
}
`},
	{"comments-crlf", "# leading comment\r\nscript MyScript { // trailing comment\r\n    lock # another\r\n    // whole line\r\n    msgbox(\"text # not a comment // neither\")\r\n    release\r\n}\r\n# comment without newline at end"},
	{"unicode", `
script Pokémon_Script {
    msgbox("Pokémon 日本語 テキスト 😀 ¿Qué?")
    setvar(VAR_ÜBER, 1)
    if (flag(FLAG_É)) { émettre }
}
text Текст { "Привет, мир" }
movement Ходьба { шаг * 2 }
`},
	{"early-exit", `
script MyScript {
    if (flag(FLAG_WON) == true) {
        end
    }
    if (flag(FLAG_LOST)) {
        return
    } else {
        end
    }
    end
AfterEnd:
    nop
    return
AfterReturn:
    nop
}
script OnlyEnd { end }
script OnlyReturn { return }
`},
	{"scopes", `
script(global) MyGlobalScript {
    a
}
script(local) MyLocalScript {
    b
}
text(local) T1 { "x" }
movement(global) M1 { m }
mart(global) Mart1 { I }
mapscripts(local) Maps1 { X: MyLocalScript }
`},
	{"deep-mix", `
script Deep {
    do {
        if (flag(A)) {
            switch (var(B)) {
                case 1:
                    while (var(C) < 2) {
                        if (flag(D)) {
                            break
                        } elif (flag(E)) {
                            continue
                        }
                        do {
                            inner
                            if (flag(F)) { break }
                        } while (flag(G))
                    }
                case 2:
                    break
                default:
                    while {
                        switch (var(H)) {
                            case 0: break
                            default: spin
                        }
                        break
                    }
            }
        } else {
            poryswitch(V) {
                A { if (flag(I)) { break } }
                _: nop
            }
        }
    } while (var(Z) != 0)
}
`},
	{"poryswitch-in-mapscripts", `
mapscripts Map_Scripts {
    MAP_SCRIPT_ON_LOAD {
        poryswitch(GAME_VERSION) {
            RUBY: setflag(FLAG_RUBY)
            _: setflag(FLAG_OTHER)
        }
        while (var(V1) < 2) {
            poryswitch(V) { A { addvar(V1, 1) continue } _: break }
        }
    }
    MAP_SCRIPT_ON_FRAME_TABLE [
        VAR_T, 0 {
            switch (var(X)) {
                case 1:
                    poryswitch(LANGUAGE) { GERMAN { msgbox("de") } _ { msgbox("xx") } }
                default: other
            }
        }
    ]
}
`},
	{"command-args", `
script Args {
    setvar(VAR_X, (1 + 2) * 3)
    call(Foo(bar, baz), qux)
    cmd(a b c, d  e, , f)
    cmd2(-1, 0x1F, 007, 0)
    msgbox("first", "second", ascii"third", format("fourth text that is formatted"), moves(w1 w2 * 2))
    trailing(a, b,)
    cmp(A == B, C != D, E <= F, !G, H && I || J, K * 2, [L], M: N)
    empty()
    noparens
    special(flag, var, defeated, value, true, FALSE, global, local, case, default, script)
}
`},
	{"empty-constructs", `
script Empty { }
script Empties {
    if (flag(A)) {}
    if (flag(A)) {} elif (flag(B)) {} else {}
    while (flag(A)) {}
    while {}
    do {} while (flag(A))
    switch (var(A)) { default: }
    switch (var(A)) { case 1: }
    switch (var(A)) { case 1: x case 2: case 3: }
    switch (var(A)) { default: d case 9: }
    poryswitch(V) { _ { } }
    poryswitch(V) { A { } _ { } }
}
text E { "" }
movement EM {}
mart EMart {}
mapscripts EMap {}
`},
	{"numbers", `
script Numbers {
    setvar(VAR_A, 0)
    setvar(VAR_B, -5)
    setvar(VAR_C, 0x4000)
    setvar(VAR_D, 0xabCDef)
    setvar(VAR_E, 12345678901234567890)
    if (var(VAR_A) == -1) { a }
    if (var(VAR_A) >= 0x10) { b }
    switch (var(VAR_A)) { case -1: m case 0: z case 0x2: h }
}
movement Mul { step * 1 step * 0x3 step * 9999 }
`},
	{"shared-default", `
script SharedDefault {
    switch (var(VAR_A)) {
        default:
        case 1:
            msgbox("default and one")
            if (flag(F)) { extra }
        case 2:
        case 3:
            two_three
    }
    switch (var(VAR_B)) {
        case 1:
        default:
            one_default
    }
}
`},
	{"dedupe-texts", `
script A { msgbox("same text") msgbox("same text") msgbox("other") applymovement(1, moves(x y)) }
script B { msgbox("same text") msgbox(ascii"same text") applymovement(2, moves(x y)) applymovement(2, moves(x, y, z)) }
text A_Text_9 { "explicit, no clash" }
movement A_Movement_9 { q }
`},
	{"many-toplevel", `
const A = 1 const B = A + A
script S1 { a(A) } script S2 { b(B) } text T1 { "1" } text T2 { "2" }
movement M1 { m } mart R1 { i } raw ~r~ mapscripts P1 { X: S1 } const C = B B
script S3 { c(C) if (flag(C)) { goto(S1) } }
`},
	{"lint-independent-labels", `
script S {
    poryswitch(V) {
        A { nop }
        _ {
            msgbox("only in the fallback case")
            applymovement(1, moves(only_fallback))
        }
    }
}
text S_Text_0 { "explicit text whose name equals the label the fallback case would generate" }
movement S_Movement_0 { explicit_step }
`},
}

// edgeInputs are hand-written near-valid or tricky inputs (class "edge").
var edgeInputs = []string{
	`text T { format("some words to wrap here", numLines=2, numLines=3) }`,
	`script S { msgbox(format("some words", "1_latin_rse", maxLineLength=50, fontId="1_latin_frlg")) }`,
	`text T { format("a b c", cursorOverlapWidth=1, numLines=2, cursorOverlapWidth=1) }`,
	"",
	" ",
	"\n\n\n",
	"\ufeff",
	"\ufeffscript S { a }",
	"# only a comment",
	"// only a comment",
	"#",
	"/",
	"//",
	"script",
	"script S",
	"script S {",
	"script S { a",
	"script S { a(",
	"script S { a(\"",
	"script S { a(\"x",
	"script S { a(format(",
	"script S { a(format(\"x\"",
	"script S { a(format(\"x\",",
	"script S { a(format(\"x\", numLines=",
	"script S { a(format(\"x\", fontId=\"nope\")) }",
	"script S { a(format(\"x\", \"nope\")) }",
	"script S { a(format(\"some words to format here\")) }",
	"script S { a(moves(",
	"script S { a(moves(w *",
	"script S { a(moves(w * 3",
	"script S { a(moves(w * 0)) }",
	"script S { a(moves(w * -1)) }",
	"script S { a(moves(w * 10000)) }",
	"script S { a(moves(w * 99999999999999999999)) }",
	"script S { a(moves(w * 0x)) }",
	"script S { a(moves(w * 100000000)) }",
	"movement M { w * 4294967296 }",
	"movement M { w * 9999 w * 9999 }",
	"script S { a(moves(a poryswitch(V) { A { b c } _: d } e)) }",
	"script S { if",
	"script S { if (",
	"script S { if (flag",
	"script S { if (flag(",
	"script S { if (flag(A",
	"script S { if (flag(A)",
	"script S { if (flag(A))",
	"script S { if (flag(A)) {",
	"script S { if (flag(A)) { } else",
	"script S { if (flag(A)) { } elif",
	"script S { if (var(A) ==",
	"script S { if (var(A) == value",
	"script S { if (var(A) == value(",
	"script S { if (var(A) == value(1",
	"script S { if (var(A) == 1 2 3",
	"script S { if (flag(A) &&",
	"script S { if (flag(A) ||",
	"script S { if (flag(A) && flag(B) x flag(C)) { a } }",
	"script S { if (flag(X) || flag(A) && flag(B) x flag(C)) { a } }",
	"script S { if (flag(X) && flag(A) && flag(B) { flag(C)) { a } }",
	"script S { while (flag(X) || flag(A) && flag(B) 1 flag(C)) { a } }",
	"script S { do { a } while (flag(X) && (flag(A) && flag(B) , flag(C))) }",
	"script S { if (flag(A) && flag(B) == flag(C)) { a } }",
	"script S { if (!) { a } }",
	"script S { if (()) { a } }",
	"script S { if (!(!(!()))) { a } }",
	"script S { if (specialvar) { a } }",
	"script S { if (specialvar()) { a } }",
	"script S { if (specialvar(,)) { a } }",
	"script S { if (checkcoins == 1) { a } }",
	"script S { switch (specialvar) { case 1: a } }",
	"script S { switch (specialvar()) { case 1: a } }",
	"script S { switch (random) { case 1: a } }",
	"script S { switch (random(",
	"script S { switch (var(A)) { case 1: a case 1: b } }",
	"script S { switch (var(A)) { default: a default: b } }",
	"script S { switch (var(A)) { } }",
	"script S { switch (var(A)) { case",
	"script S { switch (var(A)) { case 1",
	"script S { switch (var(A)) { case 1:",
	"script S { switch (var(A)) { default",
	"script S { switch (var(A)) { default:",
	"script S { switch (var(A)) { x } }",
	"script S { switch (var(A",
	"script S { switch (var",
	"script S { switch (flag(A)) { case 1: a } }",
	"script S { break }",
	"script S { continue }",
	"script S { while { continue x } }",
	"script S { while { break x } }",
	"script S { while { break\nL: x } goto(L) }",
	"script S { do { a } }",
	"script S { do { a } while }",
	"script S { do { a } while (",
	"script S { do",
	"script S { L: L: }",
	"script S { S_1: if (flag(A)) { x } y }",
	"script S { msgbox(\"a\") }\ntext S_Text_0 { \"b\" }",
	"script S { applymovement(1, moves(a)) }\nmovement S_Movement_0 { b }",
	"movement M { a } movement M { b }",
	"text T { \"a\" } text T { \"b\" }",
	"script S { poryswitch",
	"script S { poryswitch(",
	"script S { poryswitch(V",
	"script S { poryswitch(V)",
	"script S { poryswitch(V) {",
	"script S { poryswitch(V) { A",
	"script S { poryswitch(V) { A:",
	"script S { poryswitch(V) { A {",
	"script S { poryswitch(V) { A { x",
	"script S { poryswitch(V) { A { x }",
	"script S { poryswitch(UNDEFINED_SWITCH) { A { x } _ { y } } }",
	"script S { poryswitch(V) { NOPE { x } } }",
	"text T { poryswitch(V) { NOPE: \"x\" } }",
	"text T { poryswitch(UNDEFINED_SWITCH) { A: \"x\" _: \"y\" } }",
	"movement M { poryswitch(V) { NOPE: x } }",
	"mart M { poryswitch(V) { NOPE: X } }",
	"mart M { poryswitch(UNDEFINED_SWITCH) { A: X _: Y } }",
	"text T",
	"text T {",
	"text T { \"a\"",
	"text T { format",
	"text T { format(",
	"text T { ascii",
	"text T { ascii\"x",
	"text T { poryswitch(V) {",
	"text T { poryswitch(V) { A",
	"text T { poryswitch(V) { A:",
	"text T { poryswitch(V) { A: \"x\"",
	"text T { poryswitch(V) { A { \"x\"",
	"text(",
	"text(global",
	"text(global)",
	"movement",
	"movement M",
	"movement M {",
	"movement M { a",
	"movement M { a *",
	"movement M { a * 2",
	"movement M { poryswitch(V) {",
	"movement M { poryswitch(V) { A:",
	"movement M { poryswitch(V) { A {",
	"movement M { poryswitch(V) { A { x",
	"movement M { , , , }",
	"mart",
	"mart M",
	"mart M {",
	"mart M { A",
	"mart M { poryswitch(V) {",
	"mart M { poryswitch(V) { A {",
	"mart M { poryswitch(V) { A { X",
	"mapscripts",
	"mapscripts M",
	"mapscripts M {",
	"mapscripts M { T",
	"mapscripts M { T:",
	"mapscripts M { T: L",
	"mapscripts M { T {",
	"mapscripts M { T { a",
	"mapscripts M { T [",
	"mapscripts M { T [ V",
	"mapscripts M { T [ V,",
	"mapscripts M { T [ V, 1",
	"mapscripts M { T [ V, 1:",
	"mapscripts M { T [ V, 1: L",
	"mapscripts M { T [ V, 1 {",
	"mapscripts M { T [ V, 1 { a",
	"mapscripts M { T [ V, 1 { a }",
	"mapscripts M { T [ V, 1 { a } ]",
	"mapscripts M { T [ , 1: L ] }",
	"mapscripts M { T [ V, : L ] }",
	"mapscripts M { T [ ] T [ ] }",
	"raw",
	"raw `",
	"raw `x",
	"raw \"x\"",
	"`",
	"``",
	"\"",
	"\"\"",
	"const",
	"const A",
	"const A =",
	"const A = 1",
	"const A = 1 const A = 2",
	"const A = script S { }",
	"const A = A",
	"const A = 1 const B = A A const C = B B const D = C C script S { x(D) }",
	"script S { a }\x00script T { b }",
	"\x00",
	"script S {\x00}",
	"script S { a(\x00) }",
	"script S { msgbox(\"a\xef\xbf\xbdb\") }",
	"\xef\xbf\xbd",
	"script S\xef\xbf\xbd { }",
	"# comment with \xef\xbf\xbd inside\nscript S { }",
	"raw `\xef\xbf\xbd`",
	"script S { msgbox(\"unterminated\n}\n",
	"script S { msgbox(\"line one\n  continues here\") }",
	"script S { a\r}\r",
	"script(S) { }",
	"script(global S { }",
	"script(global) { }",
	"script 5 { }",
	"script S [ ]",
	"script S { 5 }",
	"script S { ( }",
	"script S { ) }",
	"script S { } }",
	"script S { a((((((((((b)))))))))) }",
	"script S { a(()))) }",
	"script S { a(b)) }",
	"script S { X(global): Y(local): Z(global) }",
	"script S { X(global }",
	"& | && || ! != = == < <= > >= * , : ( ) { } [ ]",
	"0 0x 0x1 -1 -0 - 00 1a a1 _ __ _1",
	"ascii\"a\" \"b\" braille\"c\"",
	"script S { msgbox(ascii) }",
	"script S { msgbox(ascii\"a\" \"b\") }",
	"script S { msgbox(ascii \"a\") }",
	"script S { format(\"a\") }",
	"script S { moves(a) }",
	"script S { value(1) }",
	"script S { var(A) }",
	"script S { flag(A) }",
	"script S { else { } }",
	"script S { elif (flag(A)) { } }",
	"script S { case 1: a }",
	"script S { default: a }",
	"script S { script T { } }",
	"script S { text T { \"a\" } }",
	"script S { raw `x` }",
}
