package c18

import (
	"bytes"
	"context"
	"encoding/json"
	"fmt"
	"github.com/huderlem/poryscript/parser"
	"os"
	"os/exec"
	"path/filepath"
	"strconv"
	"strings"
	"sync"
	"sync/atomic"
	"syscall"
	"time"

	"verif.local/pvmon/internal/h"
)

// CLI sub-check: the built poryscript binary must exit with status 0, or with
// status 1 and a stderr line starting "PORYSCRIPT ERROR" (PORYSCRIPT WARNING
// lines about the font config may precede it); never with the Go runtime's
// panic status 2, never by a signal, and it must finish.

type cliCase struct {
	name  string
	src   string
	args  []string
	stdin bool
	// wantExit >= 0: this exit status is expected whatever the library says about the source (failures and
	// information requests of the binary itself); noInput: do not pass -i
	wantExit int
	noInput  bool
}

func cliCases(e *env) []cliCase {
	full := []string{"-s", "GAME_VERSION=RUBY", "-s", "LANGUAGE=GERMAN", "-s", "V=A"}
	var cs []cliCase
	for i, p := range e.corpus {
		if i%2 == 0 {
			cs = append(cs, cliCase{name: "corpus:" + p.name, src: p.src, args: full})
		}
	}
	for i, p := range e.corpus {
		if i%3 == 0 {
			cs = append(cs, cliCase{name: "corpus-cut:" + p.name, src: joinLexemes(p.lex[:len(p.lex)/2], ""), args: full})
		}
	}
	for i, s := range edgeInputs {
		if i%9 == 0 {
			cs = append(cs, cliCase{name: fmt.Sprintf("edge:%d", i), src: s, args: full})
		}
	}
	fmtSrc := "script S { msgbox(format(\"some words that are long enough to be wrapped around by format\")) }\n"
	psSrc := "script S { poryswitch(V) { A { a } _ { b } } }\n"
	cs = append(cs,
		cliCase{name: "u+fffd in string", src: "script S { msgbox(\"a\xef\xbf\xbdb\") }\n"},
		cliCase{name: "u+fffd in comment", src: "# \xef\xbf\xbd\nscript S { a }\n"},
		cliCase{name: "nul byte", src: "script S { a }\x00 script T { b }\n"},
		cliCase{name: "bom", src: "\ufeffscript S { a }\n"},
		cliCase{name: "stray operator in condition", src: "script S { if (flag(X) || flag(A) && flag(B) x flag(C)) { a } }\n"},
		cliCase{name: "invalid default font id", src: fmtSrc, args: []string{"-f", "nope"}},
		cliCase{name: "valid default font id", src: fmtSrc, args: []string{"-f", "1_latin_frlg"}},
		cliCase{name: "missing font config", src: fmtSrc, args: []string{"-fc", e.fontMissing}},
		cliCase{name: "garbage font config", src: fmtSrc, args: []string{"-fc", e.fontGarbage[0]}},
		cliCase{name: "font config with missing default", src: fmtSrc, args: []string{"-fc", filepath.Join(e.workDir, "font_baddefault.json")}},
		cliCase{name: "negative line length", src: fmtSrc, args: []string{"-l", "-5"}},
		cliCase{name: "tiny line length", src: fmtSrc, args: []string{"-l", "1"}},
		cliCase{name: "no optimize no line markers", src: e.corpus[7].src, args: []string{"-optimize=false", "-lm=false"}},
		cliCase{name: "poryswitch without -s", src: psSrc},
		cliCase{name: "poryswitch with other -s", src: psSrc, args: []string{"-s", "OTHER=1"}},
		cliCase{name: "poryswitch with -s", src: psSrc, args: []string{"-s", "V=A"}},
		cliCase{name: "stdin input", src: e.corpus[1].src, stdin: true},
		cliCase{name: "stdin truncated", src: "script S { if (flag(A)", stdin: true},
		cliCase{name: "shared-default depth 10", src: script(nest("switch (var(A)) { default: case 1:\n", "}\n", 10, "if (flag(F)) { x }\n"))},
		cliCase{name: "nesting depth 40", src: script(nest("if (flag(A)) {\n", "}\n", 40, "x\n"))},
		cliCase{name: "unclosed depth 40", src: "script S {" + strings.Repeat("while (flag(A)) { ", 40)},
		cliCase{name: "multiplier 9999", src: "movement M { a * 9999 }\n"},
		cliCase{name: "multiplier too large", src: "movement M { a * 10000 }\n"},
		cliCase{name: "empty", src: ""},
	)
	// command configs a user could write: an entry with neither key, a misspelled key, both keys, a negative and a
	// huge position, no autovar section, an empty object; a garbage / missing file
	avSrc := "script S { if (specialthing(VAR_A, 2) == 1) { lock } specialthing(VAR_B, 3) }\n"
	for i, cfg := range []string{
		`{"autovar_commands":{"specialthing":{}}}`,
		`{"autovar_commands":{"specialthing":{"varname":"VAR_RESULT"}}}`,
		`{"autovar_commands":{"specialthing":{"var_name":""}}}`,
		`{"autovar_commands":{"specialthing":{"var_name":"VAR_RESULT","var_name_arg_position":0}}}`,
		`{"autovar_commands":{"specialthing":{"var_name_arg_position":-1}}}`,
		`{"autovar_commands":{"specialthing":{"var_name_arg_position":99}}}`,
		`{"autovar_commands":{"other":{"var_name":"VAR_RESULT"},"unused":{}}}`,
		`{"autovar_commands":{}}`,
		`{}`,
		`{"autovar_commands":null}`,
		`{"autovar_commands":{"specialthing":null}}`,
	} {
		path := filepath.Join(e.workDir, fmt.Sprintf("cc_case_%d.json", i))
		os.WriteFile(path, []byte(cfg), 0o644)
		cs = append(cs, cliCase{name: "command config " + cfg, src: avSrc, args: []string{"-cc", path}})
	}
	for i := range cs {
		cs[i].wantExit = -1
	}
	// the binary's own failure and information paths: each ends with status 0 or 1 (2 for a malformed command line),
	// never with a crash
	okSrc := "script S { lock }\n"
	cs = append(cs,
		cliCase{name: "output file in a directory that does not exist", src: okSrc, args: []string{"-o", filepath.Join(e.workDir, "no_such_dir", "x", "out.inc")}, wantExit: 1},
		cliCase{name: "output path is a directory", src: okSrc, args: []string{"-o", e.workDir}, wantExit: 1},
		cliCase{name: "input file missing", src: okSrc, args: []string{"-i", filepath.Join(e.workDir, "no_such_input.pory")}, wantExit: 1, noInput: true},
		cliCase{name: "input path is a directory", src: okSrc, args: []string{"-i", e.workDir}, wantExit: 1, noInput: true},
		cliCase{name: "version", src: okSrc, args: []string{"-v"}, wantExit: 0, noInput: true},
		cliCase{name: "help", src: okSrc, args: []string{"-h"}, wantExit: 0, noInput: true},
		cliCase{name: "unknown flag", src: okSrc, args: []string{"-no-such-flag"}, wantExit: 2},
		cliCase{name: "switch without =", src: okSrc, args: []string{"-s", "KEYONLY"}, wantExit: 2},
		cliCase{name: "empty command config path", src: okSrc, args: []string{"-cc", ""}, wantExit: 0},
		cliCase{name: "missing command config", src: okSrc, args: []string{"-cc", filepath.Join(e.workDir, "no_such_cc.json")}, wantExit: 1},
	)
	return cs
}

var cliRetries atomic.Int32

// one witness per CLI violation key is reported, the others are only counted
// (the same defect shows up in the library-level workloads with more detail)
var cliKeySeen sync.Map

func cliViolation(k *h.Case, key, msg string, details map[string]interface{}) {
	k.Count("cli_violations:"+key, 1)
	if _, loaded := cliKeySeen.LoadOrStore(key, true); loaded {
		return
	}
	k.Violation(key, msg, details)
}

func runCLI(ctx *h.Ctx, e *env) {
	bin := os.Getenv("PORYSCRIPT_BIN")
	cases := cliCases(e)
	if bin == "" {
		if ctx.OnlySub == "" || ctx.OnlySub == "cli" {
			ctx.Inconclusive("PORYSCRIPT_BIN is not set: the CLI sub-check cannot run")
		}
		return
	}
	cc := filepath.Join(h.RepoDir, "command_config.json")
	var libCfg parser.CommandConfig
	if b, err := os.ReadFile(cc); err != nil || json.Unmarshal(b, &libCfg) != nil {
		ctx.Inconclusive("cannot decode %s", cc)
		return
	}
	// libOpts translates the command line of a case into library options: the expected exit status is 0 exactly
	// when the library accepts the same input under the same options
	libOpts := func(c cliCase, file string) h.Opts {
		o := h.Opts{Optimize: true, LM: true, Cfg: libCfg, FontPath: e.fontValid, Switches: map[string]string{}}
		if !c.stdin {
			o.Path = file
		}
		for i := 0; i < len(c.args); i++ {
			a := c.args[i]
			next := func() string {
				if i+1 < len(c.args) {
					i++
					return c.args[i]
				}
				return ""
			}
			switch {
			case a == "-s":
				kv := next()
				if j := strings.Index(kv, "="); j >= 0 {
					o.Switches[kv[:j]] = kv[j+1:]
				}
			case a == "-f":
				o.FontID = next()
			case a == "-fc":
				o.FontPath = next()
			case a == "-cc":
				var cfg parser.CommandConfig
				if b, err := os.ReadFile(next()); err == nil && json.Unmarshal(b, &cfg) == nil {
					o.Cfg = cfg
				}
			case a == "-l":
				n, _ := strconv.Atoi(next())
				o.MaxLen = n
			case a == "-optimize=false":
				o.Optimize = false
			case a == "-lm=false":
				o.LM = false
			}
		}
		return o
	}
	ctx.RunCases("cli", len(cases), func(k *h.Case) {
		c := cases[k.Index%len(cases)]
		k.SetSource(c.src)
		file := filepath.Join(e.workDir, fmt.Sprintf("cli-%d-%d.pory", os.Getpid(), k.Index))
		var args []string
		hasFC, hasCC := false, false
		for _, a := range c.args {
			if a == "-fc" {
				hasFC = true
			}
			if a == "-cc" {
				hasCC = true
			}
		}
		if !hasCC {
			args = append(args, "-cc", cc)
		}
		if !hasFC {
			args = append(args, "-fc", e.fontValid)
		}
		if !c.stdin && !c.noInput {
			if err := os.WriteFile(file, []byte(c.src), 0o644); err != nil {
				ctx.Inconclusive("cannot write CLI input file: %v", err)
				return
			}
			defer os.Remove(file)
			args = append(args, "-i", file)
		}
		args = append(args, c.args...)
		var exit int
		var stderr string
		var signalled, timedOut bool
		var outLen int
		for try := 0; try < 2; try++ {
			cctx, cancel := context.WithTimeout(context.Background(), 10*time.Second)
			cmd := exec.CommandContext(cctx, bin, args...)
			cmd.Dir = e.workDir
			if c.stdin {
				cmd.Stdin = strings.NewReader(c.src)
			}
			var so, se bytes.Buffer
			cmd.Stdout, cmd.Stderr = &so, &se
			err := cmd.Run()
			timedOut = cctx.Err() == context.DeadlineExceeded
			cancel()
			stderr, outLen = se.String(), so.Len()
			exit, signalled = 0, false
			if err != nil {
				ee, ok := err.(*exec.ExitError)
				if !ok {
					ctx.Inconclusive("cannot run the poryscript binary %s: %v", bin, err)
					return
				}
				exit = ee.ExitCode()
				if ws, ok := ee.Sys().(syscall.WaitStatus); ok && ws.Signaled() {
					signalled = true
				}
			}
			// a time-out is retried once (at most 3 retries per run) before it counts
			if !timedOut || cliRetries.Add(1) > 3 {
				break
			}
		}
		k.Count("evaluations", 1)
		k.Count("cli_runs", 1)
		details := map[string]interface{}{"case": c.name, "args": strings.Join(c.args, " "), "stdin": c.stdin, "exit": exit, "stderr": headTail(stderr, 1500), "stdout_bytes": outLen}
		switch {
		case timedOut:
			k.Count("cli_timeout", 1)
			cliViolation(k, "cli-hang", fmt.Sprintf("poryscript CLI (%s) did not finish within 10 s (inputs of this size take milliseconds)", c.name), details)
		case signalled:
			k.Count("cli_signalled", 1)
			cliViolation(k, "cli-signal", fmt.Sprintf("poryscript CLI (%s) was killed by a signal instead of exiting with status 0 or 1", c.name), details)
		case c.wantExit >= 0:
			if strings.Contains(stderr, "goroutine ") || strings.Contains(stderr, "panic:") || strings.Contains(stderr, "fatal error:") {
				cliViolation(k, "cli-crash", fmt.Sprintf("poryscript CLI (%s) crashed (exit status %d): %q", c.name, exit, head(stderr, 300)), details)
			} else if exit != c.wantExit {
				cliViolation(k, "cli-exit-unexpected", fmt.Sprintf("poryscript CLI (%s) exited with status %d, expected %d: %q", c.name, exit, c.wantExit, head(stderr, 200)), details)
			} else if exit == 1 && !hasErrorLine(stderr) {
				cliViolation(k, "cli-exit-1-unmarked", fmt.Sprintf("poryscript CLI (%s) exited with status 1 but no stderr line starts with \"PORYSCRIPT ERROR\": %q", c.name, head(stderr, 200)), details)
			} else {
				k.Count(fmt.Sprintf("cli_own_paths_exit_%d", exit), 1)
			}
			k.Nontrivial("cli-own", exit, c.name)
		case exit == 0 || (exit == 1 && hasErrorLine(stderr)):
			// a legal way to end; it must also be the RIGHT one: status 0 with output exactly when the library
			// accepts the same input under the same options
			lib := h.Compile(c.src, libOpts(c, file))
			k.Count("evaluations", 1)
			switch {
			case lib.Panic != nil:
				// (reported by the library-level classes)
			case lib.OK() != (exit == 0):
				cliViolation(k, "cli-status-differs", fmt.Sprintf("poryscript CLI (%s) exited with status %d, but the library %s the same input under the same options (%s)", c.name, exit, map[bool]string{true: "accepts", false: "rejects"}[lib.OK()], lib.ErrString()), details)
			case exit == 0 && lib.Out != "" && outLen == 0:
				cliViolation(k, "cli-no-output", fmt.Sprintf("poryscript CLI (%s) exited with status 0 without writing the %d bytes of output the library produces", c.name, len(lib.Out)), details)
			case exit == 1 && lib.Err != nil && !strings.Contains(stderr, lib.Err.Error()):
				cliViolation(k, "cli-error-differs", fmt.Sprintf("poryscript CLI (%s) reports %q, the library error is %q", c.name, head(stderr, 200), lib.Err.Error()), details)
			default:
				k.Count("cli_status_matches_library", 1)
			}
			if exit == 0 {
				k.Count("cli_exit_0", 1)
			} else {
				k.Count("cli_exit_1_marked", 1)
			}
			k.Nontrivial("cli", exit, shapeOf(c.src), strings.Join(c.args, " "))
		case exit == 1:
			k.Count("cli_exit_1_unmarked", 1)
			cliViolation(k, "cli-exit-1-unmarked", fmt.Sprintf("poryscript CLI (%s) exited with status 1 but no stderr line starts with \"PORYSCRIPT ERROR\": %q", c.name, head(stderr, 200)), details)
		default:
			k.Count(fmt.Sprintf("cli_exit_%d", exit), 1)
			cliViolation(k, fmt.Sprintf("cli-exit-%d", exit), fmt.Sprintf("poryscript CLI (%s) exited with status %d (expected 0, or 1 with a PORYSCRIPT ERROR message): %q", c.name, exit, head(stderr, 200)), details)
		}
		k.Sample("cli/"+fmt.Sprint(exit), map[string]interface{}{"case": c.name, "exit": exit, "stderr_head": head(stderr, 160)})
	})
}

func hasErrorLine(stderr string) bool {
	for _, ln := range strings.Split(stderr, "\n") {
		if strings.HasPrefix(ln, "PORYSCRIPT ERROR") {
			return true
		}
	}
	return false
}
