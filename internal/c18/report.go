package c18

import (
	"sort"

	"verif.local/pvmon/internal/h"
)

// A report is what one worker (child process, or the single-case runner)
// observed. It is printed as one JSON object on the child's stdout and
// replayed by the parent into the harness context.

type violRec struct {
	Sub     string                 `json:"sub"`
	Index   int                    `json:"index"`
	Key     string                 `json:"key"`
	Message string                 `json:"message"`
	Source  string                 `json:"source"`
	Details map[string]interface{} `json:"details,omitempty"`
}

type sampleRec struct {
	Class string      `json:"class"`
	Sub   string      `json:"sub"`
	Index int         `json:"index"`
	Value interface{} `json:"value"`
}

type report struct {
	Counters   map[string]int64 `json:"counters"`
	Max        map[string]int64 `json:"max"`
	Sigs       []uint64         `json:"sigs"`
	Samples    []sampleRec      `json:"samples"`
	Viol       []violRec        `json:"viol"`
	ViolCount  map[string]int64 `json:"viol_count"`
	HarnessErr []string         `json:"harness_err"`

	sigSet     map[uint64]struct{}
	sampleSeen map[string]int
}

const maxSigsPerWorker = 250000

func newReport() *report {
	return &report{Counters: map[string]int64{}, Max: map[string]int64{}, ViolCount: map[string]int64{},
		sigSet: map[uint64]struct{}{}, sampleSeen: map[string]int{}}
}

func (r *report) count(name string, d int64) { r.Counters[name] += d }

func (r *report) max(name string, v int64) {
	if cur, ok := r.Max[name]; !ok || v > cur {
		r.Max[name] = v
	}
}

func (r *report) sig(parts ...interface{}) {
	if len(r.sigSet) >= maxSigsPerWorker {
		return
	}
	r.sigSet[h.Hash64(parts...)] = struct{}{}
}

func (r *report) sample(class, sub string, index int, v interface{}) {
	if r.sampleSeen[class] >= 1 {
		return
	}
	r.sampleSeen[class]++
	r.Samples = append(r.Samples, sampleRec{class, sub, index, v})
}

func (r *report) harnessErr(msg string) {
	if len(r.HarnessErr) < 10 {
		r.HarnessErr = append(r.HarnessErr, msg)
	}
}

// violation records a witness; at most 2 per key and 60 in total are kept in
// full, all are counted.
func (r *report) violation(sub string, index int, key, msg, src string, details map[string]interface{}) {
	r.ViolCount[key]++
	if r.ViolCount[key] > 2 || len(r.Viol) >= 60 {
		return
	}
	if len(src) > 6000 {
		details = copyDetails(details)
		details["source_truncated_from_bytes"] = len(src)
		src = src[:6000]
		for len(src) > 0 && src[len(src)-1]&0xC0 == 0x80 {
			src = src[:len(src)-1]
		}
	}
	r.Viol = append(r.Viol, violRec{sub, index, key, msg, src, details})
}

func copyDetails(d map[string]interface{}) map[string]interface{} {
	m := map[string]interface{}{}
	for k, v := range d {
		m[k] = v
	}
	return m
}

func (r *report) finalize() {
	r.Sigs = r.Sigs[:0]
	for s := range r.sigSet {
		r.Sigs = append(r.Sigs, s)
	}
	sort.Slice(r.Sigs, func(i, j int) bool { return r.Sigs[i] < r.Sigs[j] })
}
