// Package c18 is the runtime monitor for property C18: "every input is
// answered promptly with output or a located error, never a crash".
//
// The real compiler (lexer -> parser -> emitter, normal and lint mode) is
// executed on hostile workloads inside journalled child processes; every
// execution is judged by a deterministic oracle (no panic, progress on the
// token-pull logical clock, bounded output growth, error values that carry a
// line range inside the input, lint accepts whatever normal mode accepts and
// never complains about the missing environment). Fatal crashes and
// wall-clock hangs, which cannot be recovered in-process, are detected by the
// parent from the exit status and the journal and confirmed by an isolated
// re-run of the single culprit case.
package c18

import (
	"bufio"
	"bytes"
	"context"
	"encoding/json"
	"errors"
	"fmt"
	"os"
	"os/exec"
	"path/filepath"
	"runtime"
	"runtime/debug"
	"sort"
	"strconv"
	"strings"
	"sync"
	"sync/atomic"
	"time"
	"unicode/utf8"

	"github.com/huderlem/poryscript/parser"

	"verif.local/pvmon/internal/h"
)

const prop = "C18"

// ---------------------------------------------------------------------------
// One case = one generated input x its option variants

type journal struct {
	f   *os.File
	buf []byte
}

func openJournal(path string) (*journal, error) {
	f, err := os.OpenFile(path, os.O_CREATE|os.O_WRONLY|os.O_TRUNC|os.O_APPEND, 0o644)
	if err != nil {
		return nil, err
	}
	return &journal{f: f, buf: make([]byte, 0, 64)}, nil
}

func (j *journal) write(class string, index, variant int) {
	if j == nil {
		return
	}
	b := j.buf[:0]
	b = append(b, class...)
	b = append(b, ' ')
	b = strconv.AppendInt(b, int64(index), 10)
	b = append(b, ' ')
	b = strconv.AppendInt(b, int64(variant), 10)
	b = append(b, '\n')
	j.f.Write(b)
	j.buf = b
}

func (j *journal) raw(s string) {
	if j != nil {
		j.f.WriteString(s)
	}
}

type watch struct {
	start   atomic.Int64 // unix nanos of the running compile call, 0 when idle
	classID atomic.Int64
	index   atomic.Int64
	variant atomic.Int64
}

func classID(class string) int64 {
	for i, c := range classOrder {
		if c == class {
			return int64(i)
		}
	}
	return -1
}

func runCase(e *env, rep *report, class string, index int, seed int64, j *journal, w *watch) {
	defer func() {
		if r := recover(); r != nil {
			buf := make([]byte, 4096)
			n := runtime.Stack(buf, false)
			rep.harnessErr(fmt.Sprintf("panic in the harness itself at %s/%d: %v\n%s", class, index, r, buf[:n]))
		}
	}()
	r := h.NewRand(seed, prop, class, index)
	in := e.gen(class, index, r)
	if !utf8.ValidString(in.src) {
		rep.harnessErr(fmt.Sprintf("generator produced invalid UTF-8 at %s/%d", class, index))
		return
	}
	if strings.Count(in.src, "\x00") > maxNULs {
		rep.harnessErr(fmt.Sprintf("generator produced more than %d NUL bytes at %s/%d", maxNULs, class, index))
		return
	}
	rep.count("cases_total", 1)
	rep.count("cases:"+class, 1)
	rep.max("max_input_bytes", int64(len(in.src)))
	toks := approxTokens(in.src)
	lines := strings.Count(in.src, "\n") + 1
	shape := shapeOf(in.src)
	cid := classID(class)

	normalParseOK := -1 // variant index of a normal-mode run whose parse stage succeeded
	var lintEx *execution
	var firstFam string
	for vi, v := range in.variants {
		j.write(class, index, vi)
		w.classID.Store(cid)
		w.index.Store(int64(index))
		w.variant.Store(int64(vi))
		t0 := time.Now()
		w.start.Store(t0.UnixNano())
		res := h.Compile(in.src, v.o)
		w.start.Store(0)
		rep.max("max_compile_micros", time.Since(t0).Microseconds())
		ex := &execution{class: class, index: index, variant: vi, vname: v.name, src: in.src, o: v.o, res: res, lines: lines}
		fam := checkExecution(rep, ex, toks)
		if vi == 0 {
			firstFam = fam
			if class == "bomb" && fam == "ok" {
				// growth trend of the nested shared-default switch family, for the evidence
				if b := e.bombs[index%len(e.bombs)]; b.shape == "shared-default-switch" {
					rep.max(fmt.Sprintf("trend_shared_default_switch_output_lines_depth_%02d", b.depth), int64(strings.Count(res.Out, "\n")))
				}
			}
		}
		mode := "normal"
		if v.o.Lint {
			mode = "lint"
			lintEx = ex
		} else if res.Panic == nil && (res.Err == nil || !res.ParseErr) && normalParseOK < 0 {
			normalParseOK = vi
		}
		if toks >= 3 && fam != "panic" && fam != "hang" {
			rep.sig(class, mode, fam, shape)
			rep.count("nontrivial_executions", 1)
		}
		rep.count("outcome_family:"+mode+":"+famKind(fam), 1)
	}

	// lint relation: whatever normal mode parses, lint mode must accept
	if lintEx != nil && normalParseOK >= 0 {
		rep.count("lint_relation_checked", 1)
		if lintEx.res.Panic == nil && lintEx.res.Err != nil {
			fam := msgFamily(lintEx.res.Err.Error())
			var pe parser.ParseError
			if errors.As(lintEx.res.Err, &pe) {
				fam = msgFamily(pe.Message)
			}
			d := optsDetails(in.variants[normalParseOK].o)
			d["accepting_variant"] = in.variants[normalParseOK].name
			d["lint_error"] = lintEx.res.Err.Error()
			rep.violation(class, index, "lint-rejects-accepted:"+fam,
				fmt.Sprintf("lint mode rejects a program that normal mode accepts: normal (%s) parsed it, lint returned %q", in.variants[normalParseOK].name, lintEx.res.Err.Error()), in.src, d)
		}
	}
	if in.lintMustAccept && lintEx != nil && lintEx.res.Panic == nil && lintEx.res.Err != nil {
		// a generated program is valid up to its switches: lint mode "never fails because switches ... are missing"
		rep.violation(class, index, "lint-rejects-generated", fmt.Sprintf("lint mode rejects a generated program that is valid by construction: %q", lintEx.res.Err.Error()), in.src, optsDetails(lintEx.o))
	}
	if in.expectReject != "" && strings.HasPrefix(firstFam, "err:") {
		rep.count("gen_rejections_foreseen", 1)
	} else if in.expectReject != "" && firstFam == "ok" {
		rep.harnessErr(fmt.Sprintf("generated program is accepted although a poryswitch has no matching case and no '_' (see C12): %q", head(in.src, 120)))
	}
	if in.expectAccept {
		if firstFam == "ok" {
			rep.count("corpus_accepted_full_env", 1)
		} else if strings.HasPrefix(firstFam, "err:") {
			rep.count("corpus_rejected_full_env", 1)
			rep.harnessErr(fmt.Sprintf("corpus program %q is rejected under the full environment (%s): the corpus is no longer valid for this tree", in.note, firstFam))
		}
	}
	rep.sample(class+"/"+famKind(firstFam), class, index, map[string]interface{}{"note": in.note, "input_head": head(in.src, 240), "input_bytes": len(in.src),
		"variants": len(in.variants), "outcome_full_env": firstFam})
}

func famKind(fam string) string {
	if strings.HasPrefix(fam, "err:") {
		return "error"
	}
	return fam
}

// ---------------------------------------------------------------------------
// Child worker process

// Worker is the entry point of `pvmon worker c18 ...`:
//
//	<shard> <nshards> <seed> <tier> <journalpath>     all cases of a shard
//	one <class> <index> <seed> <tier> <journalpath>   a single case
//
// Exit status: 0 report printed; 3 watchdog (a single compile call exceeded
// the wall-clock budget); 4 heap limit exceeded; 2 = Go runtime fatal error.
func Worker(args []string) int {
	if len(args) != 5 && len(args) != 6 {
		fmt.Fprintln(os.Stderr, "usage: worker c18 <shard> <nshards> <seed> <tier> <journal> | one <class> <index> <seed> <tier> <journal>")
		return 64
	}
	debug.SetMaxStack(64 << 20)
	debug.SetMemoryLimit(2 << 30)
	parser.VerifSetPullLimits(pullSlack, maxEOFPulls)
	single := args[0] == "one"
	var class string
	var a, b int
	var rest []string
	if single {
		class = args[1]
		a, _ = strconv.Atoi(args[2])
		rest = args[3:]
	} else {
		a, _ = strconv.Atoi(args[0])
		b, _ = strconv.Atoi(args[1])
		rest = args[2:]
		if b < 1 || a < 0 || a >= b {
			fmt.Fprintln(os.Stderr, "bad shard arguments")
			return 64
		}
	}
	seed, _ := strconv.ParseInt(rest[0], 10, 64)
	tier := rest[1]
	j, err := openJournal(rest[2])
	if err != nil {
		fmt.Fprintln(os.Stderr, "cannot open journal:", err)
		return 65
	}
	wdSecs := 20
	if s := os.Getenv("C18_WATCHDOG_S"); s != "" {
		if v, err := strconv.Atoi(s); err == nil && v > 0 {
			wdSecs = v
		}
	}
	skip := map[string]bool{}
	for _, s := range strings.Split(os.Getenv("C18_SKIP"), ",") {
		if s != "" {
			skip[s] = true
		}
	}
	e := newEnv()
	rep := newReport()
	w := &watch{}
	go watchdog(w, j, time.Duration(wdSecs)*time.Second)

	if single {
		runCase(e, rep, class, a, seed, j, w)
	} else {
		quick := tier != "thorough"
		for _, cl := range classOrder {
			n := e.classCount(cl, quick)
			for idx := a; idx < n; idx += b {
				if len(skip) > 0 && skip[cl+":"+strconv.Itoa(idx)] {
					rep.count("cases_skipped_after_crash", 1)
					continue
				}
				runCase(e, rep, cl, idx, seed, j, w)
			}
		}
	}
	rep.finalize()
	out := bufio.NewWriter(os.Stdout)
	out.WriteString("C18REPORT ")
	enc := json.NewEncoder(out)
	if err := enc.Encode(rep); err != nil {
		fmt.Fprintln(os.Stderr, "cannot encode report:", err)
		return 66
	}
	out.Flush()
	return 0
}

func watchdog(w *watch, j *journal, limit time.Duration) {
	var ms runtime.MemStats
	tick := 0
	for {
		time.Sleep(250 * time.Millisecond)
		tick++
		st := w.start.Load()
		id := func() string {
			c := w.classID.Load()
			cn := "?"
			if c >= 0 && int(c) < len(classOrder) {
				cn = classOrder[c]
			}
			return fmt.Sprintf("%s %d %d", cn, w.index.Load(), w.variant.Load())
		}
		if st != 0 && time.Since(time.Unix(0, st)) > limit {
			j.raw("WATCHDOG " + id() + "\n")
			buf := make([]byte, 1<<16)
			n := runtime.Stack(buf, true)
			fmt.Fprintf(os.Stderr, "WATCHDOG: compile call running for more than %v at %s\n%s\n", limit, id(), buf[:n])
			os.Exit(3)
		}
		if tick%2 == 0 {
			runtime.ReadMemStats(&ms)
			if ms.HeapAlloc > 3<<30 {
				j.raw("MEMLIMIT " + id() + "\n")
				fmt.Fprintf(os.Stderr, "MEMLIMIT: heap %d MiB at %s\n", ms.HeapAlloc>>20, id())
				os.Exit(4)
			}
		}
	}
}

// ---------------------------------------------------------------------------
// Parent

type childOutcome struct {
	rep      *report
	status   string // ok | crash | watchdog | memlimit | timeout | badoutput | spawn
	exitCode int
	stderr   string
	culprit  string // "class index variant" from the journal
	wall     time.Duration
}

func lastJournalLine(path string) string {
	b, err := os.ReadFile(path)
	if err != nil {
		return ""
	}
	lines := strings.Split(strings.TrimRight(string(b), "\n"), "\n")
	if len(lines) == 0 {
		return ""
	}
	ln := lines[len(lines)-1]
	ln = strings.TrimPrefix(ln, "WATCHDOG ")
	ln = strings.TrimPrefix(ln, "MEMLIMIT ")
	return ln
}

func tail(s string, n int) string {
	if len(s) <= n {
		return s
	}
	s = s[len(s)-n:]
	for len(s) > 0 && !utf8.RuneStart(s[0]) {
		s = s[1:]
	}
	return "…" + s
}

func headTail(s string, n int) string {
	if len(s) <= 2*n {
		return s
	}
	return head(s, n) + "\n[...]\n" + tail(s, n)
}

func spawn(exe string, args []string, envExtra []string, journalPath string, timeout time.Duration) childOutcome {
	cctx, cancel := context.WithTimeout(context.Background(), timeout)
	defer cancel()
	cmd := exec.CommandContext(cctx, exe, append([]string{"worker", "c18"}, args...)...)
	cmd.Env = append(os.Environ(), "GOMAXPROCS=2", "GOTRACEBACK=single")
	cmd.Env = append(cmd.Env, envExtra...)
	var stdout, stderr bytes.Buffer
	cmd.Stdout = &stdout
	cmd.Stderr = &stderr
	t0 := time.Now()
	err := cmd.Run()
	oc := childOutcome{wall: time.Since(t0), stderr: stderr.String()}
	if cctx.Err() == context.DeadlineExceeded {
		oc.status = "timeout"
		oc.culprit = lastJournalLine(journalPath)
		return oc
	}
	if err != nil {
		ee, ok := err.(*exec.ExitError)
		if !ok {
			oc.status = "spawn"
			oc.stderr = err.Error()
			return oc
		}
		oc.exitCode = ee.ExitCode()
		oc.culprit = lastJournalLine(journalPath)
		switch oc.exitCode {
		case 3:
			oc.status = "watchdog"
		case 4:
			oc.status = "memlimit"
		case 64, 65, 66:
			oc.status = "spawn"
		default:
			oc.status = "crash" // 2 = Go fatal error / unrecovered panic; -1 = killed by a signal
		}
		return oc
	}
	out := stdout.Bytes()
	i := bytes.LastIndex(out, []byte("C18REPORT "))
	if i < 0 {
		oc.status = "badoutput"
		return oc
	}
	rep := newReport()
	if err := json.Unmarshal(out[i+len("C18REPORT "):], rep); err != nil {
		oc.status = "badoutput"
		oc.stderr = err.Error()
		return oc
	}
	if rep.Counters == nil {
		rep.Counters = map[string]int64{}
	}
	if rep.Max == nil {
		rep.Max = map[string]int64{}
	}
	if rep.ViolCount == nil {
		rep.ViolCount = map[string]int64{}
	}
	oc.rep = rep
	oc.status = "ok"
	return oc
}

type runner struct {
	ctx     *h.Ctx
	e       *env
	exe     string
	workDir string
	mu      sync.Mutex
	reports []*report
	incon   []string
	seq     atomic.Int64
	// number of watchdog/memlimit deaths triaged so far
	slowTriage atomic.Int32
}

func (rn *runner) addReport(r *report) {
	rn.mu.Lock()
	rn.reports = append(rn.reports, r)
	rn.mu.Unlock()
}

func (rn *runner) inconclusive(format string, a ...interface{}) {
	rn.mu.Lock()
	rn.incon = append(rn.incon, fmt.Sprintf(format, a...))
	rn.mu.Unlock()
}

// isolated runs one case alone in a fresh child with a 60 s watchdog and
// turns what happens into a report (including fatal-crash / hang / memory
// violations). It is used for triage of a dead shard worker and for replay.
func (rn *runner) isolated(class string, index int, why string) *report {
	jp := filepath.Join(rn.workDir, fmt.Sprintf("journal-%d-one-%d-%d.log", rn.ctx.Seed, os.Getpid(), rn.seq.Add(1)))
	defer os.Remove(jp)
	oc := spawn(rn.exe, []string{"one", class, strconv.Itoa(index), strconv.FormatInt(rn.ctx.Seed, 10), rn.ctx.Tier, jp},
		[]string{"C18_WATCHDOG_S=60"}, jp, 100*time.Second)
	rep := oc.rep
	if rep == nil {
		rep = newReport()
	}
	rep.count("children_isolated_runs", 1)
	src := ""
	func() {
		defer func() { recover() }()
		src = rn.e.gen(class, index, h.NewRand(rn.ctx.Seed, prop, class, index)).src
	}()
	details := map[string]interface{}{"case": fmt.Sprintf("%s/%d", class, index), "journal_last_line": oc.culprit, "exit_code": oc.exitCode,
		"stderr": headTail(oc.stderr, 3000), "triggered_by": why, "isolated_wall_s": oc.wall.Seconds()}
	switch oc.status {
	case "ok":
		if why != "replay" {
			rn.inconclusive("worker died (%s) at case %s/%d but the isolated re-run of that case finished normally", why, class, index)
		}
	case "crash":
		rep.count("children_crashed_isolated", 1)
		if strings.Contains(oc.stderr, "github.com/huderlem/poryscript/") {
			what := "fatal error"
		find:
			for _, pfx := range []string{"fatal error:", "panic:", "runtime:"} {
				for _, ln := range strings.Split(oc.stderr, "\n") {
					if strings.HasPrefix(ln, pfx) {
						what = strings.TrimSpace(ln)
						break find
					}
				}
			}
			rep.violation(class, index, "fatal-crash", fmt.Sprintf("the process compiling this input died instead of returning output or an error: exit status %d, %s", oc.exitCode, what), src, details)
		} else if oc.exitCode >= 0 && !strings.Contains(oc.stderr, "goroutine ") && !strings.Contains(oc.stderr, "panic:") && !strings.Contains(oc.stderr, "fatal error:") {
			// the isolated child exited by itself (no signal) in the middle of the one compile call it was started
			// for: something inside the library ended the process (os.Exit, log.Fatal) instead of returning
			rep.violation(class, index, "fatal-exit", fmt.Sprintf("the process compiling this input exited with status %d inside the compile call instead of returning output or an error (stderr: %q)", oc.exitCode, tail(oc.stderr, 200)), src, details)
		} else {
			rn.inconclusive("isolated child for %s/%d died (exit %d: signal or Go runtime crash) without poryscript frames on its stack: %s", class, index, oc.exitCode, tail(oc.stderr, 300))
		}
	case "badoutput":
		// exit status 0 without a report: the process ended normally before the harness could print anything
		rep.violation(class, index, "fatal-exit", "the process compiling this input exited with status 0 inside the compile call instead of returning output or an error", src, details)
	case "watchdog", "timeout":
		rep.violation(class, index, "hang-wallclock", fmt.Sprintf("compilation does not terminate promptly: a single compile call of this %d-byte input was still running after 60 s in an isolated process (first stopped by: %s)", len(src), why), src, details)
	case "memlimit":
		rep.violation(class, index, "memory-growth", fmt.Sprintf("compilation of this %d-byte input grew the heap beyond 3 GiB in an isolated process", len(src)), src, details)
	default:
		rn.inconclusive("isolated child for %s/%d could not be run: %s %s", class, index, oc.status, tail(oc.stderr, 300))
	}
	return rep
}

func witnessRank(sub string) int {
	switch sub {
	case "edge":
		return 0
	case "corpus":
		return 1
	case "bomb", "trunc":
		return 2
	}
	return 3
}

func parseCulprit(s string) (string, int, bool) {
	f := strings.Fields(s)
	if len(f) < 2 {
		return "", 0, false
	}
	idx, err := strconv.Atoi(f[1])
	if err != nil || classID(f[0]) < 0 {
		return "", 0, false
	}
	return f[0], idx, true
}

func (rn *runner) runShard(shard, nshards int, timeout time.Duration) {
	jp := filepath.Join(rn.workDir, fmt.Sprintf("journal-%d-%s-%d.log", rn.ctx.Seed, rn.ctx.Tier, shard))
	var skip []string
	launched := newReport()
	defer rn.addReport(launched)
	for attempt := 0; attempt < 6; attempt++ {
		launched.count("children_launched", 1)
		oc := spawn(rn.exe, []string{strconv.Itoa(shard), strconv.Itoa(nshards), strconv.FormatInt(rn.ctx.Seed, 10), rn.ctx.Tier, jp},
			[]string{"C18_SKIP=" + strings.Join(skip, ",")}, jp, timeout)
		launched.max("max_child_wall_ms", oc.wall.Milliseconds())
		if oc.status == "ok" {
			rn.addReport(oc.rep)
			os.Remove(jp)
			return
		}
		launched.count("children_died:"+oc.status, 1)
		switch oc.status {
		case "spawn", "badoutput":
			rn.inconclusive("shard %d: worker could not be run or printed no report (%s): %s", shard, oc.status, tail(oc.stderr, 300))
			return
		case "timeout":
			rn.inconclusive("shard %d: worker exceeded its overall budget of %v (last journalled case: %s)", shard, timeout, oc.culprit)
			return
		}
		class, idx, ok := parseCulprit(oc.culprit)
		if !ok {
			rn.inconclusive("shard %d: worker died (%s, exit %d) and the journal names no case: %s", shard, oc.status, oc.exitCode, tail(oc.stderr, 300))
			return
		}
		if (oc.status == "watchdog" || oc.status == "memlimit") && rn.slowTriage.Add(1) > 3 {
			// every confirmation of a hang costs up to 60 s: three per run are enough for a verdict
			rn.inconclusive("shard %d: worker stopped by its %s at case %s/%d; not re-run in isolation (three such cases were already re-run this run) and the rest of the shard was not executed", shard, oc.status, class, idx)
			return
		}
		rn.addReport(rn.isolated(class, idx, fmt.Sprintf("shard worker %s, exit %d", oc.status, oc.exitCode)))
		skip = append(skip, class+":"+strconv.Itoa(idx))
	}
	rn.inconclusive("shard %d: more than 5 cases killed the worker; the rest of the shard was not executed", shard)
}

// mergeReports folds all worker reports into one, keeping for every violation
// key the two shortest witnesses and ordering them so that distinct keys come
// first.
func mergeReports(reps []*report) (*report, map[string]int64) {
	m := newReport()
	maxes := map[string]int64{}
	byKey := map[string][]violRec{}
	for _, r := range reps {
		if r == nil {
			continue
		}
		for n, v := range r.Counters {
			m.Counters[n] += v
		}
		for n, v := range r.Max {
			if cur, ok := maxes[n]; !ok || v > cur {
				maxes[n] = v
			}
		}
		for _, s := range r.Sigs {
			m.sigSet[s] = struct{}{}
		}
		for _, s := range r.Samples {
			if m.sampleSeen[s.Class] < 1 {
				m.sampleSeen[s.Class]++
				m.Samples = append(m.Samples, s)
			}
		}
		for _, v := range r.Viol {
			byKey[v.Key] = append(byKey[v.Key], v)
		}
		for k, n := range r.ViolCount {
			m.ViolCount[k] += n
		}
		m.HarnessErr = append(m.HarnessErr, r.HarnessErr...)
	}
	sort.Slice(m.Samples, func(i, j int) bool { return m.Samples[i].Class < m.Samples[j].Class })
	keys := make([]string, 0, len(byKey))
	for k, vs := range byKey {
		keys = append(keys, k)
		sort.SliceStable(vs, func(i, j int) bool {
			// hand-written inputs make the most readable witnesses, then the shortest
			if pi, pj := witnessRank(vs[i].Sub), witnessRank(vs[j].Sub); pi != pj {
				return pi < pj
			}
			if len(vs[i].Source) != len(vs[j].Source) {
				return len(vs[i].Source) < len(vs[j].Source)
			}
			if vs[i].Sub != vs[j].Sub {
				return vs[i].Sub < vs[j].Sub
			}
			return vs[i].Index < vs[j].Index
		})
		byKey[k] = vs
	}
	// crashes, hangs and panics first, then the rest alphabetically
	rank := func(k string) int {
		switch {
		case strings.HasPrefix(k, "fatal-crash"), strings.HasPrefix(k, "hang-"), strings.HasPrefix(k, "memory-"):
			return 0
		case strings.HasPrefix(k, "panic:"):
			return 1
		case strings.HasPrefix(k, "output-growth"):
			return 2
		}
		return 3
	}
	sort.Slice(keys, func(i, j int) bool {
		if rank(keys[i]) != rank(keys[j]) {
			return rank(keys[i]) < rank(keys[j])
		}
		return keys[i] < keys[j]
	})
	for round := 0; round < 2; round++ {
		for _, k := range keys {
			if len(byKey[k]) > round {
				m.Viol = append(m.Viol, byKey[k][round])
			}
		}
	}
	m.finalize()
	if len(m.HarnessErr) > 10 {
		m.HarnessErr = m.HarnessErr[:10]
	}
	return m, maxes
}

// pushMerged replays the merged report into the harness (violations in the
// given order, not re-sorted).
func pushMerged(k *h.Case, m *report) {
	for n, v := range m.Counters {
		k.Count(n, v)
	}
	for _, s := range m.Sigs {
		k.Nontrivial(s)
	}
	saveSub, saveIdx := k.Sub, k.Index
	for _, s := range m.Samples {
		k.Sub, k.Index = s.Sub, s.Index
		k.Sample(s.Class, s.Value)
	}
	for _, v := range m.Viol {
		k.Sub, k.Index = v.Sub, v.Index
		k.SetSource(v.Source)
		k.Violation(v.Key, v.Message, v.Details)
	}
	k.Sub, k.Index = saveSub, saveIdx
	k.SetSource("")
	for key, n := range m.ViolCount {
		k.Count("violations_by_key:"+key, n)
	}
	seen := map[string]bool{}
	for _, e := range m.HarnessErr {
		if !seen[e] {
			seen[e] = true
			k.C.Inconclusive("harness problem in worker: %s", e)
		}
	}
}

const rule = "inputs: hand-written corpus of valid programs x option matrix; hand-written edge inputs; every lexeme-boundary truncation of the corpus (exhaustive); " +
	"1-3 token-level mutations (delete/duplicate/swap/replace/insert, optional cut at a token or rune boundary) of corpus programs; random token soup over the full lexeme alphabet behind 34 context prefixes; " +
	"random valid-UTF-8 strings (NUL, BOM, CR, U+FFFD, private-use, astral) bare and inside 21 templates; nesting/size bombs (41 shapes x depths 8..40, shared-default switches 2..12); " +
	"each input is compiled in normal mode with the full environment, in lint mode, and with 1-7 random option combinations (optimize, line markers, path, switches full/nil/empty/partial/other, font config valid/missing/garbage, font id valid/invalid, max line length 0/small/huge/negative), all in journalled child processes. " +
	"A case is non-trivial when the input has at least 3 lexemes and the execution returned output or an error; the shape signature is (class, mode, outcome family, lexeme-kind sequence with names/numbers/strings abstracted)."

var assumptions = []string{
	"inputs are valid UTF-8, at most ~16 KiB, nesting depth at most 40 (shared-default switches at most 12), at most 16 NUL bytes",
	"a hang is decided on the token-pull logical clock of the verif hook (more than 64 EOF tokens or more than len(input)+80 tokens pulled); loops that pull no tokens are only caught by the 20 s/60 s wall-clock watchdog with an isolated re-run",
	"output growth bound: lines <= 64*lexemes + 2*sum(multipliers) + 2*input lines + 64 with lexemes over-estimated by an independent splitter",
	"the AutoVar command config is not one of the varied option dimensions beyond present/empty (the property names optimize, line-marker, switch and font settings)",
	"lint relation compares lint mode with normal-mode runs that use the same AutoVar command config",
	"process-level observations (fatal crash, wall-clock hang, heap above 3 GiB) are confirmed by re-running the single case in a fresh child process",
}

// Run is the check entry point.
func Run(ctx *h.Ctx) int {
	workDir, err := prepareWorkDir()
	if err != nil {
		ctx.Inconclusive("cannot prepare work directory: %v", err)
		return ctx.Finish(rule, 1, assumptions)
	}
	exe, err := os.Executable()
	if err != nil {
		ctx.Inconclusive("cannot locate own executable for child workers: %v", err)
		return ctx.Finish(rule, 1, assumptions)
	}
	e := newEnv()
	rn := &runner{ctx: ctx, e: e, exe: exe, workDir: workDir}

	if ctx.OnlySub != "" {
		// replay of one recorded case: run it alone in a fresh child
		for _, cl := range classOrder {
			ctx.RunCases(cl, e.classCount(cl, ctx.Quick()), func(k *h.Case) {
				rep := rn.isolated(cl, k.Index, "replay")
				m, _ := mergeReports([]*report{rep})
				pushMerged(k, m)
			})
		}
		runCLI(ctx, e)
		for _, s := range rn.incon {
			ctx.Inconclusive("%s", s)
		}
		return ctx.Finish(rule, 0, assumptions)
	}

	nshards := runtime.NumCPU()
	if nshards < 1 {
		nshards = 1
	}
	timeout := 5 * time.Minute
	if !ctx.Quick() {
		timeout = 20 * time.Minute
	}
	t0 := time.Now()
	var wg sync.WaitGroup
	for s := 0; s < nshards; s++ {
		wg.Add(1)
		go func(s int) {
			defer wg.Done()
			rn.runShard(s, nshards, timeout)
		}(s)
	}
	wg.Wait()
	merged, maxes := mergeReports(rn.reports)
	runCLI(ctx, e)
	ctx.RunCases("workers", 1, func(k *h.Case) { pushMerged(k, merged) })
	for n, v := range maxes {
		ctx.Count(n, v)
	}
	ctx.Count("shards", int64(nshards))
	ctx.Note("worker phase: %d shards, %.1f s wall; classes and planned case counts: %s", nshards, time.Since(t0).Seconds(), plannedCounts(e, ctx.Quick()))
	ctx.Exhaustive("corpus truncated after every lexeme", int64(len(e.truncTable)), fmt.Sprintf("%d corpus programs, every prefix of their lexeme sequences", len(e.corpus)))
	ctx.Exhaustive("nesting/size bombs", int64(len(e.bombs)), "every (shape, depth) pair of the bomb table")
	ctx.Exhaustive("edge inputs", int64(len(edgeInputs)), "hand-written truncated and near-valid inputs")
	for _, cl := range classOrder {
		want := int64(e.classCount(cl, ctx.Quick()))
		got := merged.Counters["cases:"+cl] + 0
		if got < want && len(rn.incon) == 0 && merged.Counters["cases_skipped_after_crash"] == 0 {
			rn.inconclusive("class %s: %d of %d planned cases were executed", cl, got, want)
		}
	}
	for _, s := range rn.incon {
		ctx.Inconclusive("%s", s)
	}
	min := 3000
	if !ctx.Quick() {
		min = 30000
	}
	return ctx.Finish(rule, min, assumptions)
}

func plannedCounts(e *env, quick bool) string {
	var parts []string
	for _, cl := range classOrder {
		parts = append(parts, fmt.Sprintf("%s=%d", cl, e.classCount(cl, quick)))
	}
	return strings.Join(parts, " ")
}
