package c18

import (
	"errors"
	"fmt"
	"strings"
	"unicode"
	"unicode/utf8"

	"github.com/huderlem/poryscript/parser"

	"verif.local/pvmon/internal/h"
)

// Logical-clock limits installed in the hook (parser/verif_on.go). Every
// non-EOF token consumes at least one byte of input, so a parse that pulls
// more than len(input)+pullSlack tokens, or more than maxEOFPulls EOF tokens,
// is not making progress. A correct parser pulls five look-ahead tokens plus a
// handful more before an EOF guard fires. Inputs generated here never contain
// more than maxNULs NUL bytes (the lexer turns each into an EOF token), so
// more than maxEOFPulls EOF pulls means at least 48 pulls at the true end.
const (
	pullSlack   = 80
	maxEOFPulls = 64
	maxNULs     = 16
)

// approxTokens is an independent over-estimate of the number of lexemes of
// src: one per maximal run of letters/digits/underscore and one per other
// non-space rune. (Strings and comments are counted word by word, which only
// makes the growth bound looser, never tighter.)
func approxTokens(src string) int {
	n := 0
	inWord := false
	for _, r := range src {
		if unicode.IsLetter(r) || unicode.IsDigit(r) || r == '_' {
			if !inWord {
				n++
				inWord = true
			}
			continue
		}
		inWord = false
		if r == ' ' || r == '\t' || r == '\n' || r == '\r' {
			continue
		}
		n++
	}
	return n
}

// sumMultipliers adds up (capped at 9999 each) every decimal or hex number that
// follows a '*' in src (blanks and comments may separate them): the only
// construct that legitimately multiplies output lines.
func sumMultipliers(src string) int64 {
	var sum int64
	for i := 0; i < len(src); i++ {
		if src[i] != '*' {
			continue
		}
		// skip the layout the language allows between '*' and the number: blanks and comments
		j := i + 1
		for j < len(src) {
			if src[j] == ' ' || src[j] == '\t' || src[j] == '\n' || src[j] == '\r' {
				j++
			} else if src[j] == '#' || (src[j] == '/' && j+1 < len(src) && src[j+1] == '/') {
				for j < len(src) && src[j] != '\n' {
					j++
				}
			} else {
				break
			}
		}
		var v int64
		k := j
		if k+1 < len(src) && src[k] == '0' && src[k+1] == 'x' {
			k += 2
			for k < len(src) && isHex(src[k]) && v <= 9999 {
				v = v*16 + int64(hexVal(src[k]))
				k++
			}
		} else {
			for k < len(src) && src[k] >= '0' && src[k] <= '9' && v <= 9999 {
				v = v*10 + int64(src[k]-'0')
				k++
			}
		}
		if v > 9999 {
			v = 9999
		}
		sum += v
	}
	return sum
}

func isHex(b byte) bool {
	return (b >= '0' && b <= '9') || (b >= 'a' && b <= 'f') || (b >= 'A' && b <= 'F')
}

func hexVal(b byte) int {
	switch {
	case b >= '0' && b <= '9':
		return int(b - '0')
	case b >= 'a' && b <= 'f':
		return int(b-'a') + 10
	}
	return int(b-'A') + 10
}

// msgFamily abstracts an error message to its fixed leading text: everything
// before the first quoted piece (at most five words), so that errors can be
// grouped by kind independently of names, numbers and quoted input.
func msgFamily(msg string) string {
	if i := strings.IndexAny(msg, "'`\""); i > 0 {
		msg = msg[:i]
	}
	ws := strings.Fields(msg)
	if len(ws) > 5 {
		ws = ws[:5]
	}
	for i, w := range ws {
		if len(w) > 0 && w[0] >= '0' && w[0] <= '9' {
			ws[i] = "_"
		}
	}
	return strings.Join(ws, " ")
}

// panicSite extracts the innermost poryscript frame of a recovered panic.
func panicSite(stack string) string {
	lines := strings.Split(stack, "\n")
	seenPanic := false
	for _, ln := range lines {
		if strings.HasPrefix(ln, "panic(") {
			seenPanic = true
			continue
		}
		if seenPanic && strings.HasPrefix(ln, "github.com/huderlem/poryscript/") {
			f := strings.TrimPrefix(ln, "github.com/huderlem/poryscript/")
			if i := strings.LastIndex(f, "("); i > 0 {
				f = f[:i]
			}
			return f
		}
	}
	return "unknown"
}

var envErrorMarkers = []string{
	"no compile switches were specified",
	"no poryswitch for",
	"no poryswitch case found",
	"unknown fontID",
}

type execution struct {
	class   string
	index   int
	variant int
	vname   string
	src     string
	o       h.Opts
	res     h.Result
	lines   int // number of lines of src
}

func optsDetails(o h.Opts) map[string]interface{} {
	return map[string]interface{}{
		"optimize": o.Optimize, "line_markers": o.LM, "path": o.Path, "font_path": o.FontPath, "font_id": o.FontID,
		"max_len": o.MaxLen, "switches": fmt.Sprintf("%v", o.Switches), "lint": o.Lint, "autovar_commands": len(o.Cfg.AutoVarCommands),
	}
}

// checkExecution is the per-execution oracle. It returns the outcome family.
func checkExecution(rep *report, ex *execution, toks int) string {
	res := &ex.res
	mode := "normal"
	if ex.o.Lint {
		mode = "lint"
	}
	rep.count("evaluations", 1)
	rep.count("exec_class:"+ex.class, 1)
	rep.count("exec_mode:"+mode, 1)
	rep.max("max_eof_pulls", res.EOFPulls)
	rep.max("max_pulls_minus_input_len", res.Pulls-int64(len(ex.src)))
	viol := func(key, msg string, extra map[string]interface{}) {
		d := optsDetails(ex.o)
		d["variant"] = ex.variant
		d["variant_name"] = ex.vname
		d["pulls"] = res.Pulls
		d["eof_pulls"] = res.EOFPulls
		d["input_bytes"] = len(ex.src)
		for k, v := range extra {
			d[k] = v
		}
		rep.violation(ex.class, ex.index, key, msg, ex.src, d)
	}

	// 1. never panics / never stops making progress
	if res.Panic != nil {
		if lim, ok := res.Panic.(parser.VerifPullLimitExceeded); ok {
			rep.count("outcome:hang-detected", 1)
			if lim.EOFPulls > maxEOFPulls {
				viol("hang-eof-pulls", fmt.Sprintf("%s parse does not terminate: expected at most %d EOF tokens pulled after the input is exhausted, observed %d (aborted by the token-pull hook; %d pulls for %d input bytes)", mode, maxEOFPulls, lim.EOFPulls, lim.Pulls, len(ex.src)),
					map[string]interface{}{"where": panicSite(res.Stack)})
			} else {
				viol("hang-pulls-over-length", fmt.Sprintf("%s parse pulled %d tokens for %d input bytes (limit len+%d): no progress on the logical clock", mode, lim.Pulls, len(ex.src), pullSlack),
					map[string]interface{}{"where": panicSite(res.Stack)})
			}
			return "hang"
		}
		site := panicSite(res.Stack)
		rep.count("outcome:panic", 1)
		viol("panic:"+site, fmt.Sprintf("%s compilation panicked instead of returning output or an error: %v (in %s)", mode, res.Panic, site),
			map[string]interface{}{"stack": res.Stack})
		return "panic"
	}

	// 2. an error value must carry a line range inside the input
	if res.Err != nil {
		rep.count("rejected:"+mode, 1)
		stage := "emit"
		if res.ParseErr {
			stage = "parse"
		}
		var pe parser.ParseError
		if !errors.As(res.Err, &pe) {
			fam := msgFamily(res.Err.Error())
			rep.count("error_family:(unlocated) "+fam, 1)
			viol("error-without-location:"+fam, fmt.Sprintf("%s stage returned an error that carries no line range (expected a parser.ParseError, observed %T): %q", stage, res.Err, res.Err.Error()), nil)
			return "err:" + fam
		}
		fam := msgFamily(pe.Message)
		rep.count("error_family:"+fam, 1)
		if pe.LineNumberStart < 1 || pe.LineNumberEnd > ex.lines || pe.LineNumberStart > pe.LineNumberEnd {
			viol("err-line-range:"+fam, fmt.Sprintf("error line range not inside the input: expected 1 <= start <= end <= %d, observed start=%d end=%d (%s stage: %q)", ex.lines, pe.LineNumberStart, pe.LineNumberEnd, stage, res.Err.Error()),
				map[string]interface{}{"parse_error": fmt.Sprintf("%+v", pe)})
		} else {
			rep.count("located_errors_checked", 1)
			if pe.LineNumberStart == pe.LineNumberEnd && pe.CharStart > pe.CharEnd {
				viol("err-char-range:"+fam, fmt.Sprintf("error on a single line has its start column after its end column: observed line %d, CharStart=%d > CharEnd=%d (%q)", pe.LineNumberStart, pe.CharStart, pe.CharEnd, res.Err.Error()),
					map[string]interface{}{"parse_error": fmt.Sprintf("%+v", pe)})
			}
		}
		if ex.o.Lint {
			for _, m := range envErrorMarkers {
				if strings.Contains(pe.Message, m) {
					viol("lint-env-error", fmt.Sprintf("lint mode failed because of the missing environment (switches/fonts): %q", res.Err.Error()), nil)
					break
				}
			}
		}
		return "err:" + fam
	}

	// 3. accepted: output growth bound
	rep.count("accepted:"+mode, 1)
	if !ex.o.Lint {
		outLines := int64(strings.Count(res.Out, "\n"))
		// raw statements copy their (possibly blank) lines, twice with line markers: allow 2 per input line
		bound := 64*int64(toks) + 2*sumMultipliers(ex.src) + 2*int64(ex.lines) + 64
		if toks > 0 {
			rep.max("max_output_lines_per_100_tokens", outLines*100/int64(toks))
		}
		rep.max("max_output_lines", outLines)
		if !utf8.ValidString(res.Out) {
			rep.count("output_not_utf8", 1)
		}
		if outLines > bound {
			viol("output-growth", fmt.Sprintf("output grows out of proportion to the input: expected at most 64*tokens+2*multipliers+2*input lines+64 = %d lines for %d tokens, observed %d lines", bound, toks, outLines),
				map[string]interface{}{"output_lines": outLines, "tokens": toks, "bound": bound, "output_head": head(res.Out, 1200)})
		}
	}
	return "ok"
}

func head(s string, n int) string {
	if len(s) <= n {
		return s
	}
	s = s[:n]
	for len(s) > 0 && !utf8.RuneStart(s[len(s)-1]) {
		s = s[:len(s)-1]
	}
	if len(s) > 0 {
		s = s[:len(s)-1]
	}
	return s + "…"
}
