package c18

import (
	"fmt"
	"math/rand/v2"
	"os"
	"path/filepath"
	"strings"
	"unicode"
	"unicode/utf8"

	"github.com/huderlem/poryscript/parser"

	"verif.local/pvmon/internal/h"
	"verif.local/pvmon/internal/spec"
)

// ---------------------------------------------------------------------------
// Environment shared by all generators

type env struct {
	workDir     string
	fontValid   string
	fontMissing string
	fontGarbage []string
	cfgStd      parser.CommandConfig
	cfgEmpty    parser.CommandConfig
	corpus      []splitProg
	truncTable  [][2]int // (program, number of lexemes kept)
	bombs       []bombCase
}

var fullSwitches = map[string]string{"GAME_VERSION": "RUBY", "LANGUAGE": "GERMAN", "V": "A"}

var garbageFonts = map[string]string{
	"font_notjson.json":   "this is not json {{{",
	"font_empty.json":     "",
	"font_emptyobj.json":  "{}",
	"font_wrongtype.json": `{"defaultFontId": 5, "fonts": []}`,
	"font_baddefault.json": `{"defaultFontId": "missing_font", "fonts": {"f1": {"maxLineLength": 50, "numLines": 2, "cursorOverlapWidth": 0,
  "widths": {" ": 3, "default": 6}}}}`,
	"font_weird.json": `{"defaultFontId": "w", "fonts": {"w": {"maxLineLength": -7, "numLines": -3, "cursorOverlapWidth": 999999,
  "widths": {" ": -3, "a": 0, "b": 1000000, "default": -1}}, "": {"maxLineLength": 0}}}`,
	"font_nowidths.json": `{"defaultFontId": "n", "fonts": {"n": {}}}`,
	"font_null.json":     `null`,
}

func intp(i int) *int { return &i }

// prepareWorkDir writes the garbage font files (idempotent; the children only
// read them).
func prepareWorkDir() (string, error) {
	dir := filepath.Join(h.VerifDir, ".work", "c18")
	if err := os.MkdirAll(dir, 0o755); err != nil {
		return "", err
	}
	for name, content := range garbageFonts {
		p := filepath.Join(dir, name)
		if b, err := os.ReadFile(p); err == nil && string(b) == content {
			continue
		}
		if err := os.WriteFile(p, []byte(content), 0o644); err != nil {
			return "", err
		}
	}
	return dir, nil
}

func newEnv() *env {
	e := &env{workDir: filepath.Join(h.VerifDir, ".work", "c18")}
	e.fontValid = filepath.Join(h.RepoDir, "font_config.json")
	e.fontMissing = filepath.Join(e.workDir, "does_not_exist.json")
	names := make([]string, 0, len(garbageFonts))
	for n := range garbageFonts {
		names = append(names, n)
	}
	sortStrings(names)
	for _, n := range names {
		e.fontGarbage = append(e.fontGarbage, filepath.Join(e.workDir, n))
	}
	e.fontGarbage = append(e.fontGarbage, e.workDir) // a directory
	e.cfgStd = parser.CommandConfig{AutoVarCommands: map[string]parser.AutoVarCommand{
		"random":       {VarName: "VAR_RESULT"},
		"checkitem":    {VarName: "VAR_RESULT"},
		"getpartysize": {VarName: "VAR_RESULT"},
		"yesnobox":     {VarName: "VAR_RESULT"},
		"specialvar":   {VarNameArgPosition: intp(0)},
		"checkcoins":   {VarNameArgPosition: intp(0)},
		"second":       {VarNameArgPosition: intp(1)},
	}}
	for pi, p := range corpusRaw {
		sp := splitProgram(p.name, bt(p.src))
		e.corpus = append(e.corpus, sp)
		for n := 0; n <= len(sp.lex); n++ {
			e.truncTable = append(e.truncTable, [2]int{pi, n})
		}
	}
	e.bombs = buildBombs()
	return e
}

func sortStrings(a []string) {
	for i := 1; i < len(a); i++ {
		for j := i; j > 0 && a[j] < a[j-1]; j-- {
			a[j], a[j-1] = a[j-1], a[j]
		}
	}
}

// ---------------------------------------------------------------------------
// Own lexeme splitter (independent of the lexer under test): used to cut the
// hand-written corpus programs into lexemes for mutation, and to compute the
// abstract shape signature of any input.

type lexeme struct {
	gap  string // layout (spaces, newlines, comments) before the lexeme
	text string
}

type splitProg struct {
	name string
	src  string
	lex  []lexeme
	tail string // layout after the last lexeme
}

func isWordRune(r rune) bool { return unicode.IsLetter(r) || unicode.IsDigit(r) || r == '_' }

func splitProgram(name, src string) splitProg {
	sp := splitProg{name: name, src: src}
	i := 0
	gapStart := 0
	for i < len(src) {
		c := src[i]
		switch {
		case c == ' ' || c == '\t' || c == '\n' || c == '\r':
			i++
			continue
		case c == '#' || (c == '/' && i+1 < len(src) && src[i+1] == '/'):
			for i < len(src) && src[i] != '\n' {
				i++
			}
			continue
		}
		start := i
		switch {
		case c == '"':
			i++
			for i < len(src) && src[i] != '"' {
				i++
			}
			if i < len(src) {
				i++
			}
		case c == '`':
			i++
			for i < len(src) && src[i] != '`' {
				i++
			}
			if i < len(src) {
				i++
			}
		case i+1 < len(src) && (src[i:i+2] == "==" || src[i:i+2] == "!=" || src[i:i+2] == "<=" || src[i:i+2] == ">=" || src[i:i+2] == "&&" || src[i:i+2] == "||"):
			i += 2
		case c == '-' && i+1 < len(src) && src[i+1] >= '0' && src[i+1] <= '9':
			i++
			for i < len(src) {
				r, sz := utf8.DecodeRuneInString(src[i:])
				if !isWordRune(r) {
					break
				}
				i += sz
			}
		default:
			r, sz := utf8.DecodeRuneInString(src[i:])
			if isWordRune(r) {
				for i < len(src) {
					r, sz = utf8.DecodeRuneInString(src[i:])
					if !isWordRune(r) {
						break
					}
					i += sz
				}
			} else {
				i += sz
			}
		}
		sp.lex = append(sp.lex, lexeme{gap: src[gapStart:start], text: src[start:i]})
		gapStart = i
	}
	sp.tail = src[gapStart:]
	return sp
}

func joinLexemes(lex []lexeme, tail string) string {
	var sb strings.Builder
	for _, l := range lex {
		sb.WriteString(l.gap)
		sb.WriteString(l.text)
	}
	sb.WriteString(tail)
	return sb.String()
}

var keywordSet = map[string]bool{}

func init() {
	for _, k := range keywordsList {
		keywordSet[k] = true
	}
}

// shapeOf abstracts an input to the sequence of its lexeme kinds (names,
// numbers and string contents abstracted), hashed.
func shapeOf(src string) uint64 {
	sp := splitProgram("", src)
	var sb strings.Builder
	for _, l := range sp.lex {
		t := l.text
		r, _ := utf8.DecodeRuneInString(t)
		switch {
		case keywordSet[t]:
			sb.WriteString(t)
		case t[0] == '"':
			sb.WriteByte('S')
		case t[0] == '`':
			sb.WriteByte('R')
		case (r >= '0' && r <= '9') || (t[0] == '-' && len(t) > 1):
			sb.WriteByte('N')
		case isWordRune(r):
			sb.WriteByte('I')
		default:
			sb.WriteString(t)
		}
		sb.WriteByte(' ')
	}
	return h.Hash64(sb.String())
}

// ---------------------------------------------------------------------------
// Lexeme alphabet

var keywordsList = []string{"script", "raw", "text", "movement", "mart", "mapscripts", "format", "var", "flag", "defeated",
	"TRUE", "FALSE", "true", "false", "if", "else", "elif", "do", "while", "break", "continue", "switch", "case", "default",
	"global", "local", "poryswitch", "const", "value", "moves"}

var operatorsList = []string{"=", "==", "!=", "<", ">", "<=", ">=", "&&", "||", "!", "*", "&", "|"}
var delimsList = []string{",", ":", "(", ")", "{", "}", "[", "]"}
var identsList = []string{"a", "S", "M", "T", "x", "FLAG_X", "VAR_RESULT", "walk_left", "msgbox", "random", "specialvar", "checkcoins",
	"getpartysize", "second", "_", "RUBY", "A", "GAME_VERSION", "V", "LANGUAGE", "goto", "end", "return", "ITEM_NONE", "step_end", "é", "名前",
	"fontId", "maxLineLength", "numLines", "cursorOverlapWidth", "ascii", "braille", "S_1", "S_Text_0", "S_Movement_0"}
var numbersList = []string{"0", "1", "2", "9999", "10000", "-1", "-0", "0x10", "0x", "007", "99999999999999999999", "٣", "0x4000"}
var stringsList = []string{`""`, `"hi"`, `"a b c\n"`, `"$"`, `"some longer text that needs to be wrapped by format"`, `"1_latin_rse"`, `"nope"`,
	`"{PLAYER} \p\l\N x"`, `ascii"x"`, `braille"y"`, `custom"z"`, `"a" "b"`, "\"multi\nline\"", `"é日本😀"`}
var oddList = []string{`"`, "`", "`raw text`", "``", "# comment\n", "// comment\n", "-", ";", "@", ".", "\\", "/", "'", "$", "%", "\n", "\r\n", "\t"}

var alphabetAll [][]string

func init() {
	alphabetAll = [][]string{keywordsList, keywordsList, operatorsList, delimsList, delimsList, delimsList, identsList, identsList, numbersList, stringsList, oddList}
}

func randLexeme(r *rand.Rand) string {
	g := alphabetAll[r.IntN(len(alphabetAll))]
	return g[r.IntN(len(g))]
}

// ---------------------------------------------------------------------------
// Inputs and option variants

type variant struct {
	name string
	o    h.Opts
}

type input struct {
	src      string
	variants []variant
	note     string
	// expectAccept: the full-environment normal variant (index 0) is expected to accept (corpus)
	expectAccept bool
	// lintMustAccept: lint mode has to accept this input (generated valid programs)
	lintMustAccept bool
	// expectReject: non-empty when the full-environment variant has to reject for this foreseeable reason
	expectReject string
}

var pathsList = []string{"", "t.pory", "data/maps/Town/scripts.pory", `C:\maps\Town\scripts.pory`, "sp ace\"q.pory", "línea.pory"}

func (e *env) fullOpts(cfg parser.CommandConfig) h.Opts {
	return h.Opts{Optimize: true, LM: true, Path: "t.pory", Cfg: cfg, FontPath: e.fontValid, FontID: "", MaxLen: 0, Switches: fullSwitches}
}

func (e *env) lintOpts(cfg parser.CommandConfig) h.Opts {
	return h.Opts{Cfg: cfg, Lint: true}
}

func (e *env) randOpts(r *rand.Rand, cfg parser.CommandConfig) (h.Opts, string) {
	o := h.Opts{Cfg: cfg}
	o.Optimize = r.IntN(2) == 0
	o.LM = r.IntN(2) == 0
	o.Path = pathsList[r.IntN(len(pathsList))]
	var sw string
	switch r.IntN(7) {
	case 0, 1:
		o.Switches, sw = fullSwitches, "full"
	case 2:
		o.Switches, sw = nil, "nil"
	case 3:
		o.Switches, sw = map[string]string{}, "empty"
	case 4:
		o.Switches, sw = map[string]string{"V": "A"}, "partial"
	case 5:
		o.Switches, sw = map[string]string{"GAME_VERSION": "ZZZ", "LANGUAGE": "", "V": "_"}, "othervalues"
	case 6:
		o.Switches, sw = map[string]string{"GAME_VERSION": "SAPPHIRE", "LANGUAGE": "ENGLISH", "V": "B", "EXTRA": "1"}, "second"
	}
	var fp string
	switch r.IntN(6) {
	case 0, 1, 2:
		o.FontPath, fp = e.fontValid, "valid"
	case 3:
		o.FontPath, fp = e.fontMissing, "missing"
	case 4:
		i := r.IntN(len(e.fontGarbage))
		o.FontPath, fp = e.fontGarbage[i], "garbage:"+filepath.Base(e.fontGarbage[i])
	case 5:
		o.FontPath, fp = "", "emptypath"
	}
	o.FontID = h.Pick(r, []string{"", "", "", "1_latin_frlg", "1_latin_rse", "nope", "TEST", "w", "f1"})
	o.MaxLen = h.Pick(r, []int{0, 0, 0, 1, 10, 100, 208, 1 << 40, -1, -(1 << 40)})
	name := fmt.Sprintf("rand(opt=%v lm=%v path=%q sw=%s font=%s id=%q maxlen=%d)", o.Optimize, o.LM, o.Path, sw, fp, o.FontID, o.MaxLen)
	return o, name
}

// hostileCfgs: command configs a user could write by mistake - positions outside every argument list
// (negative, huge), both forms at once, an empty var name, keywords and ordinary commands as AutoVar commands.
var hostileCfgs = []parser.CommandConfig{
	{AutoVarCommands: map[string]parser.AutoVarCommand{
		"random": {VarNameArgPosition: intp(-1)}, "checkitem": {VarNameArgPosition: intp(-1 << 62)}, "getpartysize": {VarNameArgPosition: intp(1 << 62)},
		"yesnobox": {VarName: "VAR_RESULT", VarNameArgPosition: intp(-3)}, "specialvar": {VarNameArgPosition: intp(7)}, "checkcoins": {VarName: ""}, "second": {VarNameArgPosition: intp(0)},
	}},
	{AutoVarCommands: map[string]parser.AutoVarCommand{
		"flag": {VarName: "VAR_RESULT"}, "var": {VarNameArgPosition: intp(0)}, "defeated": {VarNameArgPosition: intp(-1)}, "if": {VarName: "VAR_RESULT"}, "value": {VarName: "V"},
		"msgbox": {VarNameArgPosition: intp(0)}, "end": {VarName: "VAR_RESULT"}, "switch": {VarName: "VAR_RESULT"}, "case": {VarNameArgPosition: intp(0)}, "format": {VarName: "F"}, "moves": {VarNameArgPosition: intp(1)},
		"random": {VarName: "VAR_RESULT", VarNameArgPosition: intp(0)}, "lock": {VarNameArgPosition: intp(0)}, "_": {VarName: "U"}, "": {VarName: "E"},
	}},
}

func (e *env) pickCfg(r *rand.Rand) parser.CommandConfig {
	switch x := r.IntN(12); {
	case x == 0:
		return e.cfgEmpty
	case x <= 2:
		return hostileCfgs[r.IntN(len(hostileCfgs))]
	}
	return e.cfgStd
}

// stdVariants: full environment, lint, one random option combination.
func (e *env) stdVariants(r *rand.Rand) []variant {
	cfg := e.pickCfg(r)
	ro, rn := e.randOpts(r, cfg)
	return []variant{{"full", e.fullOpts(cfg)}, {"lint", e.lintOpts(cfg)}, {rn, ro}}
}

// ---------------------------------------------------------------------------
// Class generators. Each is a pure function of (env, index, r).

var classOrder = []string{"corpus", "edge", "trunc", "mut", "soup", "utf8", "bomb", "opts", "gen"}

func (e *env) classCount(class string, quick bool) int {
	pick := func(q, t int) int {
		if quick {
			return q
		}
		return t
	}
	switch class {
	case "corpus":
		return len(e.corpus) * pick(12, 200)
	case "edge":
		return len(edgeInputs)
	case "trunc":
		return len(e.truncTable)
	case "mut":
		return pick(150000, 5000000)
	case "soup":
		return pick(100000, 3000000)
	case "utf8":
		return pick(80000, 2000000)
	case "bomb":
		return len(e.bombs)
	case "opts":
		return pick(20000, 600000)
	case "gen":
		return pick(30000, 800000)
	}
	return 0
}

func (e *env) gen(class string, index int, r *rand.Rand) input {
	switch class {
	case "corpus":
		return e.genCorpus(index, r)
	case "edge":
		return input{src: edgeInputs[index%len(edgeInputs)], variants: e.stdVariants(r)}
	case "trunc":
		t := e.truncTable[index%len(e.truncTable)]
		p := e.corpus[t[0]]
		return input{src: joinLexemes(p.lex[:t[1]], ""), variants: e.stdVariants(r), note: fmt.Sprintf("%s cut after %d lexemes", p.name, t[1])}
	case "mut":
		return e.genMut(r)
	case "soup":
		return e.genSoup(r)
	case "utf8":
		return e.genUTF8(r)
	case "bomb":
		b := e.bombs[index%len(e.bombs)]
		return input{src: b.build(b.depth), variants: e.stdVariants(r), note: fmt.Sprintf("%s depth %d", b.shape, b.depth)}
	case "opts":
		return e.genOpts(r)
	case "gen":
		return e.genGenerated(r)
	}
	return input{}
}

func (e *env) genCorpus(index int, r *rand.Rand) input {
	p := e.corpus[index%len(e.corpus)]
	round := index / len(e.corpus)
	in := input{src: p.src, note: p.name, expectAccept: true}
	in.variants = []variant{{"full", e.fullOpts(e.cfgStd)}, {"lint", e.lintOpts(e.cfgStd)}}
	if round == 0 {
		// the deterministic part of the option matrix
		for _, opt := range []bool{true, false} {
			for _, lm := range []bool{true, false} {
				o := e.fullOpts(e.cfgStd)
				o.Optimize, o.LM = opt, lm
				o.Path = `C:\maps\Town\scripts.pory`
				in.variants = append(in.variants, variant{fmt.Sprintf("full(opt=%v lm=%v backslash path)", opt, lm), o})
			}
		}
	}
	for i := 0; i < 3; i++ {
		o, n := e.randOpts(r, e.cfgStd)
		in.variants = append(in.variants, variant{n, o})
	}
	return in
}

func (e *env) mutateLexemes(r *rand.Rand, lex []lexeme) []lexeme {
	lex = append([]lexeme(nil), lex...)
	nm := 1 + r.IntN(3)
	for m := 0; m < nm && len(lex) > 0; m++ {
		i := r.IntN(len(lex))
		switch r.IntN(8) {
		case 0, 1: // delete
			lex = append(lex[:i], lex[i+1:]...)
		case 2: // duplicate
			lex = append(lex[:i+1], lex[i:]...)
		case 3: // swap with neighbour
			if i+1 < len(lex) {
				lex[i].text, lex[i+1].text = lex[i+1].text, lex[i].text
			}
		case 4: // swap with a random one
			j := r.IntN(len(lex))
			lex[i].text, lex[j].text = lex[j].text, lex[i].text
		case 5, 6: // replace by another lexeme
			lex[i].text = randLexeme(r)
		case 7: // insert
			nl := lexeme{gap: " ", text: randLexeme(r)}
			lex = append(lex[:i], append([]lexeme{nl}, lex[i:]...)...)
		}
	}
	return lex
}

func truncateAtRune(s string, off int) string {
	if off >= len(s) {
		return s
	}
	for off > 0 && !utf8.RuneStart(s[off]) {
		off--
	}
	return s[:off]
}

func (e *env) genMut(r *rand.Rand) input {
	p := e.corpus[r.IntN(len(e.corpus))]
	lex := e.mutateLexemes(r, p.lex)
	tail := p.tail
	how := "tokens"
	switch r.IntN(8) {
	case 0: // additionally cut at a token boundary
		if len(lex) > 0 {
			lex = lex[:r.IntN(len(lex)+1)]
			tail = ""
			how = "tokens+cut"
		}
	}
	src := joinLexemes(lex, tail)
	if r.IntN(8) == 0 && len(src) > 0 {
		src = truncateAtRune(src, r.IntN(len(src)+1))
		how += "+bytecut"
	}
	return input{src: src, variants: e.stdVariants(r), note: p.name + " " + how}
}

var soupPrefixes = []string{"", "", "script S { ", "script S { if ( ", "script S { if (flag(A) && ", "script S { while ", "script S { do { ",
	"script S { switch (var(A)) { ", "script S { switch (var(A)) { case 1: ", "script S { poryswitch(V) { ", "script S { poryswitch(V) { A { ",
	"script S { cmd( ", "script S { cmd(format( ", "script S { cmd(format(\"a b\", ", "script S { cmd(moves( ", "script S { if (var(A) == value( ",
	"script S { if (specialvar( ", "script S { if ( random ", "script S { switch ( ", "movement M { ", "movement M { poryswitch(V) { ", "mart M { ", "mart M { poryswitch(V) { A { ",
	"text T { ", "text T { format( ", "text T { poryswitch(V) { ", "mapscripts M { ", "mapscripts M { T [ ", "mapscripts M { T [ V, 1 { ", "mapscripts M { T { ",
	"const C = ", "raw ", "script(", "text(global) T { "}

func (e *env) genSoup(r *rand.Rand) input {
	var sb strings.Builder
	sb.WriteString(soupPrefixes[r.IntN(len(soupPrefixes))])
	n := 1 + r.IntN(40)
	if r.IntN(10) == 0 {
		n = 40 + r.IntN(200)
	}
	sepMode := r.IntN(4)
	for i := 0; i < n; i++ {
		sb.WriteString(randLexeme(r))
		switch sepMode {
		case 0, 1:
			sb.WriteByte(' ')
		case 2:
			sb.WriteString(h.Pick(r, []string{" ", "\n", "\t", "", "  ", "\r\n"}))
		case 3:
			if r.IntN(3) == 0 {
				sb.WriteByte(' ')
			}
		}
	}
	if r.IntN(3) == 0 {
		sb.WriteString(h.Pick(r, []string{" }", " } }", " ) { } }", " ] }", ")) }"}))
	}
	return input{src: sb.String(), variants: e.stdVariants(r)}
}

var runePalette = []rune{0, 0xFEFF, '\r', '\n', '\t', ' ', '"', '`', 0xFFFD, 0xE000, 0xF8FF, 0x1F600, 0x10FFFF, 0x0301, 0x200B, 0x2028, 0x85, 0xA0,
	'é', 'ß', '日', 'ж', '٣', '５', 'Ⅷ', '\\', '$', '{', '}', '(', ')', '#', '/', '*', '-', '_', '0', 'x', 'a', 'Z', 0x7F, 0x1B, 0x80, 0x7FF, 0x800, 0xFFFF, 0x10000}

func randRune(r *rand.Rand) rune {
	switch r.IntN(4) {
	case 0:
		return rune(0x20 + r.IntN(0x5F)) // printable ASCII
	case 1:
		return runePalette[r.IntN(len(runePalette))]
	case 2:
		for {
			c := rune(r.IntN(0x110000))
			if c >= 0xD800 && c <= 0xDFFF {
				continue
			}
			return c
		}
	default:
		return rune(r.IntN(0x800))
	}
}

func randUTF8(r *rand.Rand, n int, nuls *int) string {
	var sb strings.Builder
	for i := 0; i < n; i++ {
		c := randRune(r)
		if c == 0 {
			if *nuls >= maxNULs {
				c = ' '
			} else {
				*nuls++
			}
		}
		sb.WriteRune(c)
	}
	return sb.String()
}

var utf8Templates = []string{"%s", "%s", "script S { msgbox(\"%s\") }", "script S { msgbox(format(\"%s\")) }", "script S { msgbox(format(\"%s\", \"1_latin_frlg\", 40)) }",
	"text T { \"%s\" }", "text T { format(\"%s\", maxLineLength=30, numLines=3) }", "raw `%s`", "script S { %s }", "script %s { a }", "# %s\nscript S { a }",
	"script S { a(%s) }", "movement M { %s }", "mart M { %s }", "mapscripts M { %s }", "const C = %s\nscript S { a(C) }", "script S { if (flag(%s)) { a } }",
	"script S { msgbox(ascii\"%s\") }", "script S { a } // %s", "script S { poryswitch(V) { %s } }", "script S { switch (var(A)) { case %s: a } }"}

func (e *env) genUTF8(r *rand.Rand) input {
	nuls := 0
	n := r.IntN(24)
	if r.IntN(6) == 0 {
		n = 24 + r.IntN(400)
	}
	s := randUTF8(r, n, &nuls)
	t := utf8Templates[r.IntN(len(utf8Templates))]
	src := strings.Replace(t, "%s", s, 1)
	return input{src: src, variants: e.stdVariants(r)}
}

func (e *env) genOpts(r *rand.Rand) input {
	p := e.corpus[r.IntN(len(e.corpus))]
	src := p.src
	note := p.name
	if r.IntN(5) == 0 {
		lex := append([]lexeme(nil), p.lex...)
		i := r.IntN(len(lex))
		lex[i].text = randLexeme(r)
		src = joinLexemes(lex, p.tail)
		note += " (one lexeme replaced)"
	}
	cfg := e.pickCfg(r)
	in := input{src: src, note: note}
	in.variants = []variant{{"full", e.fullOpts(cfg)}, {"lint", e.lintOpts(cfg)}}
	for i := 0; i < 4; i++ {
		o, n := e.randOpts(r, cfg)
		in.variants = append(in.variants, variant{n, o})
	}
	return in
}

// ---------------------------------------------------------------------------
// Nesting bombs and other size stress (deterministic table)

type bombCase struct {
	shape string
	depth int
	build func(d int) string
}

func nest(open, close string, d int, body string) string {
	return strings.Repeat(open, d) + body + strings.Repeat(close, d)
}

func script(body string) string { return "script S {\n" + body + "\n}\n" }

func seq(n int, f func(i int) string, sep string) string {
	parts := make([]string, n)
	for i := range parts {
		parts[i] = f(i)
	}
	return strings.Join(parts, sep)
}

func buildBombs() []bombCase {
	type shape struct {
		name   string
		depths []int
		build  func(d int) string
	}
	var deep []int
	for d := 8; d <= 40; d++ {
		deep = append(deep, d)
	}
	var moderate []int
	for d := 2; d <= 12; d++ {
		moderate = append(moderate, d)
	}
	few := []int{8, 16, 24, 32, 40}
	shapes := []shape{
		{"if", deep, func(d int) string { return script(nest("if (flag(A)) {\n", "}\n", d, "x\n")) }},
		{"if-else", deep, func(d int) string { return script(nest("if (var(A) == 1) { a } else {\n", "}\n", d, "x\n")) }},
		{"if-elif-nest", deep, func(d int) string {
			return script(nest("if (flag(A)) { a } elif (flag(B)) {\n", "} else { z }\n", d, "x\n"))
		}},
		{"while", deep, func(d int) string { return script(nest("while (var(A) < 3) {\n", "}\n", d, "break\n")) }},
		{"while-infinite", deep, func(d int) string { return script(nest("while {\n", "break }\n", d, "x\n")) }},
		{"do-while", deep, func(d int) string { return script(nest("do {\n", "} while (flag(A))\n", d, "x\n")) }},
		{"switch", deep, func(d int) string { return script(nest("switch (var(A)) { case 1:\n", "}\n", d, "x\n")) }},
		{"switch-default-last", deep, func(d int) string {
			return script(nest("switch (var(A)) { case 1: a default:\n", "}\n", d, "x\n"))
		}},
		{"mixed", deep, func(d int) string {
			opens := []string{"if (flag(A)) {\n", "while (var(B) != 2) {\n", "switch (var(C)) { case 1:\n", "do {\n", "poryswitch(V) { A {\n", "if (flag(D)) { e } else {\n"}
			closes := []string{"}\n", "}\n", "}\n", "} while (flag(Z))\n", "} _: y }\n", "}\n"}
			var sb strings.Builder
			for i := 0; i < d; i++ {
				sb.WriteString(opens[i%len(opens)])
			}
			sb.WriteString("x\n")
			for i := d - 1; i >= 0; i-- {
				sb.WriteString(closes[i%len(closes)])
			}
			return script(sb.String())
		}},
		{"cond-parens", deep, func(d int) string {
			return script("if (" + nest("(", ")", d, "flag(A)") + ") { x }")
		}},
		{"cond-negated-parens", deep, func(d int) string {
			return script("if (" + nest("!(", ")", d, "flag(A)") + ") { x }")
		}},
		{"cond-nested-ops", deep, func(d int) string {
			return script("while (" + nest("flag(A) && (var(B) == 1 || ", ")", d, "!flag(C)") + ") { x }")
		}},
		{"cond-and-chain", deep, func(d int) string {
			return script("if (" + seq(d*4, func(i int) string { return fmt.Sprintf("flag(F%d)", i) }, " && ") + ") { x }")
		}},
		{"cond-or-chain", deep, func(d int) string {
			return script("if (" + seq(d*4, func(i int) string { return fmt.Sprintf("var(V%d) > %d", i, i) }, " || ") + ") { x }")
		}},
		{"cond-mixed-chain", deep, func(d int) string {
			return script("do { x } while (" + seq(d*4, func(i int) string {
				op := " && "
				if i%3 == 0 {
					op = " || "
				}
				if i == 0 {
					op = ""
				}
				return op + fmt.Sprintf("!defeated(T%d)", i)
			}, "") + ")")
		}},
		{"cond-autovar-chain", deep, func(d int) string {
			return script("if (" + seq(d, func(i int) string { return fmt.Sprintf("random(%d) == 1", i) }, " && ") + ") { x }")
		}},
		{"poryswitch-nest", deep, func(d int) string { return script(nest("poryswitch(V) { A {\n", "} _: y }\n", d, "x\n")) }},
		{"poryswitch-movement-nest", deep, func(d int) string {
			return "movement M { " + nest("poryswitch(V) { A { w ", " } _: z } ", d, "q") + " }"
		}},
		{"poryswitch-mart-nest", deep, func(d int) string {
			return "mart M { " + nest("poryswitch(V) { A { I ", " } _: Z } ", d, "Q") + " }"
		}},
		{"elif-chain", deep, func(d int) string {
			return script("if (flag(A)) { a }\n" + seq(d*5, func(i int) string { return fmt.Sprintf("elif (var(B) == %d) { b%d }", i, i) }, "\n") + "\nelse { c }")
		}},
		{"switch-many-cases", deep, func(d int) string {
			return script("switch (var(A)) {\n" + seq(d*10, func(i int) string { return fmt.Sprintf("case %d: c%d", i, i) }, "\n") + "\ndefault: d }")
		}},
		{"switch-many-shared", deep, func(d int) string {
			return script("switch (var(A)) {\n" + seq(d*10, func(i int) string { return fmt.Sprintf("case %d:", i) }, "\n") + "\nshared\n}")
		}},
		{"args-long", few, func(d int) string {
			return script("cmd(" + seq(d*40, func(i int) string { return fmt.Sprintf("a%d", i) }, ", ") + ")")
		}},
		{"args-nested-parens", deep, func(d int) string { return script("cmd(" + nest("(", ")", d, "1") + ", 2)") }},
		{"value-nested-parens", deep, func(d int) string {
			return script("if (var(A) == value(" + nest("(", ")", d, "1") + ")) { x }")
		}},
		{"multiplier-9999", []int{1, 2, 3, 4, 5}, func(d int) string {
			return "movement M { " + seq(d, func(i int) string { return fmt.Sprintf("walk%d * 9999", i) }, " ") + " }\n" +
				script("applymovement(1, moves("+seq(d, func(i int) string { return fmt.Sprintf("run%d * 9999", i) }, ", ")+"))")
		}},
		// multipliers applied to (not valid today) parenthesised groups, to one another and to list poryswitches:
		// each factor is within 1..9999, only their product is not
		{"multiplier-nested-groups", []int{2, 3, 4, 5}, func(d int) string {
			return "movement M { " + nest("(", ") * 9999", d, "walk_left walk_up") + " }\n" +
				script("applymovement(1, moves("+nest("(", ") * 9999", d, "a b")+"))")
		}},
		{"multiplier-chained", []int{2, 3, 4, 5}, func(d int) string {
			return "movement M { walk_up" + strings.Repeat(" * 9999", d) + " }\n"
		}},
		{"multiplier-on-poryswitch", []int{2, 3, 4}, func(d int) string {
			return "movement M { " + nest("poryswitch(V) { A { w * 9999 ", " } _: z } * 9999 ", d, "q * 9999") + " }"
		}},
		{"shared-default-switch", moderate, func(d int) string {
			return script(nest("switch (var(A)) { default: case 1:\n", "}\n", d, "if (flag(F)) { x }\n"))
		}},
		{"shared-default-switch-body", moderate, func(d int) string {
			return script(nest("switch (var(A)) { case 0: zero\ndefault:\ncase 1:\ncase 2:\npre\n", "post\n}\n", d, "while (flag(F)) { x }\n"))
		}},
		{"default-after-shared-case", moderate, func(d int) string {
			return script(nest("switch (var(A)) { case 1: default:\n", "}\n", d, "if (flag(F)) { x }\n"))
		}},
		{"many-scripts", few, func(d int) string {
			return seq(d*6, func(i int) string { return fmt.Sprintf("script S%d { msgbox(\"t%d\") if (flag(F)) { a } }", i, i) }, "\n")
		}},
		{"many-texts", few, func(d int) string {
			return seq(d*10, func(i int) string { return fmt.Sprintf("text T%d { \"t%d\" }", i, i) }, "\n")
		}},
		{"mapscripts-many", few, func(d int) string {
			return "mapscripts M {\n" + seq(d*5, func(i int) string { return fmt.Sprintf("T%d: L%d\nU%d { a%d }", i, i, i, i) }, "\n") +
				"\nTAB [\n" + seq(d*5, func(i int) string { return fmt.Sprintf("V, %d: L%d\nV, %d { b }", 2*i, i, 2*i+1) }, "\n") + "\n]\n}"
		}},
		{"const-doubling", []int{2, 4, 6, 8, 10}, func(d int) string {
			return "const C0 = 1\n" + seq(d, func(i int) string { return fmt.Sprintf("const C%d = C%d C%d", i+1, i, i) }, "\n") + "\n" + script(fmt.Sprintf("cmd(C%d)", d))
		}},
		{"labels-many", few, func(d int) string {
			return script(seq(d*10, func(i int) string { return fmt.Sprintf("L%d: goto(L%d)", i, (i+1)%(d*10)) }, "\n"))
		}},
		{"format-long-text", few, func(d int) string {
			return script("msgbox(format(\"" + seq(d*20, func(i int) string { return fmt.Sprintf("w%d", i) }, " ") + "\", \"1_latin_rse\", 20))")
		}},
		{"format-unbroken-text", few, func(d int) string {
			return "text T { format(\"" + strings.Repeat("x", d*100) + "\\p" + strings.Repeat("{A}", d*10) + "\") }"
		}},
		{"long-identifier", few, func(d int) string { return script(strings.Repeat("a", d*200) + "(" + strings.Repeat("b", d*200) + ")") }},
		{"unclosed-nest", deep, func(d int) string {
			return "script S {\n" + strings.Repeat("if (flag(A)) { while (var(B) < 1) { switch (var(C)) { case 1:\n", d)
		}},
		{"unclosed-parens", deep, func(d int) string { return "script S { if (" + strings.Repeat("(!(", d) }},
		{"sequence-of-ifs", few, func(d int) string {
			return script(seq(d*5, func(i int) string { return fmt.Sprintf("if (flag(F%d)) { a%d } else { b%d }", i, i, i) }, "\n"))
		}},
		{"loops-with-breaks", deep, func(d int) string {
			return script(nest("while (flag(A)) { if (flag(B)) { break } if (flag(C)) { continue }\n", "tail }\n", d, "x\n"))
		}},
	}
	var out []bombCase
	for _, s := range shapes {
		for _, d := range s.depths {
			out = append(out, bombCase{s.name, d, s.build})
		}
	}
	return out
}

// genGenerated: valid programs from the spec-tree generator shared with the
// other monitors (every construct at every nesting position, labels in dead
// code, shared/empty switch cases, poryswitch, inline map scripts, ...): the
// emitter's chunk machinery sees shapes the hand-written corpus does not have,
// under optimize on/off, line markers on/off and in lint mode.
func (e *env) genGenerated(r *rand.Rand) input {
	prof := spec.Profile{
		MaxDepth: 3, MaxLen: 4,
		WCmd: 30, WLabel: 8, WGoto: 5, WEnd: 4, WIf: 12, WWhile: 7, WInfWhile: 3, WDoWhile: 5, WBreak: 8, WContinue: 5, WSwitch: 12, WPory: 4, WCondGoto: 2,
		MaxLeaves: 3, PAuto: 0.2, PTextArg: 0.25, PMovesArg: 0.12, PFormat: 0.1, PTyped: 0.2,
		PEmptyBody: 0.1, AfterJump: 0.6, PElse: 0.5, MaxElif: 2, MaxCases: 6, PDefault: 0.6, PEmptyCase: 0.4,
		PoryKeys: []string{"GAME", "LANG"}, PFallback: 0.9, PoryContinueAnywhere: true,
	}
	g := spec.NewGen(r, prof)
	prog := g.FullProgram(1 + r.IntN(4))
	// one in six: a text, movement or mart statement is named like a label the compiler derives for ANOTHER
	// construct (an inline map script or its table, a script's sub-label, a hoisted text or movement). Whether such
	// a file is accepted is not judged here; whatever error comes back must still carry a range inside the input
	collide := ""
	if r.IntN(6) == 0 {
		var derived []string
		for _, it := range prog.Items {
			switch x := it.(type) {
			case *spec.MapScripts:
				for _, en := range x.Entries {
					derived = append(derived, x.Name+"_"+en.Type, fmt.Sprintf("%s_%s_%d", x.Name, en.Type, r.IntN(3)), x.Name+"_"+en.Type+"_Text_0")
				}
			case *spec.Script:
				derived = append(derived, fmt.Sprintf("%s_%d", x.Name, 1+r.IntN(4)), fmt.Sprintf("%s_Text_%d", x.Name, r.IntN(2)), fmt.Sprintf("%s_Movement_%d", x.Name, r.IntN(2)))
			}
		}
		var victims []*string
		for _, it := range prog.Items {
			switch x := it.(type) {
			case *spec.TextItem:
				victims = append(victims, &x.Name)
			case *spec.MovementItem:
				victims = append(victims, &x.Name)
			case *spec.MartItem:
				victims = append(victims, &x.Name)
			}
		}
		if len(derived) > 0 && len(victims) > 0 {
			collide = derived[r.IntN(len(derived))]
			*victims[r.IntN(len(victims))] = collide
		}
	}
	pr := spec.Print(prog)
	pr.Layout(spec.LayoutOpts{Scramble: r.IntN(4) == 0, CRLF: r.IntN(8) == 0, R: r})
	cfg := parser.CommandConfig{AutoVarCommands: map[string]parser.AutoVarCommand{}}
	for name, av := range prog.AutoVars {
		if av.ArgPos >= 0 {
			cfg.AutoVarCommands[name] = parser.AutoVarCommand{VarNameArgPosition: intp(av.ArgPos)}
		} else {
			cfg.AutoVarCommands[name] = parser.AutoVarCommand{VarName: av.VarName}
		}
	}
	in := input{src: pr.Src, note: "generated valid program", lintMustAccept: true}
	if collide != "" {
		in.note, in.lintMustAccept = "generated program with a statement named like the derived label "+collide, false
	} else if _, rerr := spec.Resolve(prog, prog.Switches); rerr != nil || spec.AnyUnmatched(prog, prog.Switches) {
		in.expectReject = "no poryswitch case found"
	} else {
		in.expectAccept = true
	}
	for _, opt := range []bool{true, false} {
		o := e.fullOpts(cfg)
		o.Switches = prog.Switches
		o.Optimize = opt
		o.LM = r.IntN(2) == 0
		if o.LM {
			o.Path = pathsList[1+r.IntN(len(pathsList)-1)]
		}
		in.variants = append(in.variants, variant{fmt.Sprintf("generated(opt=%v lm=%v)", opt, o.LM), o})
	}
	in.variants = append(in.variants, variant{"lint", e.lintOpts(cfg)})
	return in
}
