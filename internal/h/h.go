// Package h is the common harness: deterministic case scheduling, the
// compile wrapper around the real poryscript library, observation counters,
// violation/replay files and the evidence writer.
package h

import (
	"encoding/json"
	"fmt"
	"hash/fnv"
	"io"
	"log"
	"math/rand/v2"
	"os"
	"path/filepath"
	"runtime"
	"sort"
	"strconv"
	"strings"
	"sync"
	"sync/atomic"
	"time"

	"github.com/huderlem/poryscript/emitter"
	"github.com/huderlem/poryscript/lexer"
	"github.com/huderlem/poryscript/parser"
)

func init() {
	// poryscript logs font-config warnings through the std logger.
	log.SetOutput(io.Discard)
}

// VerifDir is the root of the verification tree (set by main).
var VerifDir = "/verif"

// RepoDir is the repository under test (informational; the build decides).
var RepoDir = "/repo"

// outDir returns where evidence/replay files go: under VerifDir, or under
// VERIF_SCRATCH_OUT when the run is against a scratch copy of the repository
// (so that committed evidence always comes from /repo itself).
func outDir(kind string) string {
	if d := os.Getenv("VERIF_SCRATCH_OUT"); d != "" {
		return filepath.Join(d, kind)
	}
	return filepath.Join(VerifDir, kind)
}

// ---------------------------------------------------------------------------
// Compile wrapper

// Opts are the options of one compilation through the library API.
type Opts struct {
	Optimize bool
	LM       bool
	Path     string
	Cfg      parser.CommandConfig
	FontPath string
	FontID   string
	MaxLen   int
	Switches map[string]string
	Lint     bool
}

// Result of one compilation.
type Result struct {
	Out      string
	Err      error
	Panic    interface{}
	Stack    string
	ParseErr bool // error came from ParseProgram (else Emit)
	Pulls    int64
	EOFPulls int64
}

// OK reports a successful compilation.
func (r *Result) OK() bool { return r.Err == nil && r.Panic == nil }

// ErrString returns a printable failure description.
func (r *Result) ErrString() string {
	if r.Panic != nil {
		return fmt.Sprintf("PANIC: %v", r.Panic)
	}
	if r.Err != nil {
		return r.Err.Error()
	}
	return ""
}

// Compilations counts every call into the real compiler made by this process.
var Compilations int64

// Compile runs the real parser and emitter on src.
func Compile(src string, o Opts) (res Result) {
	atomic.AddInt64(&Compilations, 1)
	defer func() {
		if r := recover(); r != nil {
			res.Panic = r
			buf := make([]byte, 4096)
			n := runtime.Stack(buf, false)
			res.Stack = string(buf[:n])
		}
	}()
	var p *parser.Parser
	if o.Lint {
		p = parser.NewLintParser(lexer.New(src), o.Cfg)
	} else {
		p = parser.New(lexer.New(src), o.Cfg, o.FontPath, o.FontID, o.MaxLen, o.Switches)
	}
	p.VerifSetInputLen(len(src))
	prog, err := p.ParseProgram()
	st := p.VerifStats()
	res.Pulls, res.EOFPulls = st.Pulls, st.EOFPulls
	if err != nil {
		res.Err = err
		res.ParseErr = true
		return
	}
	if o.Lint {
		return
	}
	out, err := emitter.New(prog, o.Optimize, o.LM, o.Path).Emit()
	res.Out, res.Err = out, err
	return
}

// ---------------------------------------------------------------------------
// Deterministic randomness

// Hash64 hashes a list of values into 64 bits (FNV-1a over their %v forms).
func Hash64(parts ...interface{}) uint64 {
	hh := fnv.New64a()
	for _, p := range parts {
		fmt.Fprintf(hh, "%v|", p)
	}
	return hh.Sum64()
}

// NewRand returns a PRNG determined by the given key parts.
func NewRand(parts ...interface{}) *rand.Rand {
	a := Hash64(append([]interface{}{"a"}, parts...)...)
	b := Hash64(append([]interface{}{"b"}, parts...)...)
	return rand.New(rand.NewPCG(a, b))
}

// ---------------------------------------------------------------------------
// Check context

// Violation is one recorded witness.
type Violation struct {
	Property string                 `json:"property"`
	Tier     string                 `json:"tier"`
	Seed     int64                  `json:"seed"`
	Sub      string                 `json:"sub"`
	Index    int                    `json:"index"`
	Message  string                 `json:"message"`
	Source   string                 `json:"source,omitempty"`
	Details  map[string]interface{} `json:"details,omitempty"`
	Key      string                 `json:"key,omitempty"` // known-finding key, if the oracle assigned one
}

// KnownFinding is one entry of known_findings.json.
type KnownFinding struct {
	Status   string `json:"status"` // "open" or "fixed"
	Property string `json:"property"`
	Key      string `json:"key"` // matched against Violation.Key for open findings
	What     string `json:"what"`
	Commit   string `json:"commit,omitempty"`
	Witness  string `json:"witness,omitempty"`
}

// Ctx is the state of one check run (one property, one tier, one seed).
type Ctx struct {
	Prop  string
	Tier  string // quick | thorough
	Seed  int64
	Start time.Time

	// replay filter: when OnlySub != "" only that case is executed
	OnlySub   string
	OnlyIndex int

	mu           sync.Mutex
	counters     map[string]int64
	distinct     map[uint64]struct{}
	samples      []interface{}
	sampleKeys   map[string]int
	violations   []Violation
	violKeys     map[string]bool
	knownHits    map[string]int
	exhaustive   []map[string]interface{}
	subs         []map[string]interface{}
	notes        []string
	inconclusive []string
	Known        []KnownFinding
	Workers      int
}

// NewCtx makes a context.
func NewCtx(prop, tier string, seed int64) *Ctx {
	c := &Ctx{Prop: prop, Tier: tier, Seed: seed, Start: time.Now(),
		counters: map[string]int64{}, distinct: map[uint64]struct{}{},
		sampleKeys: map[string]int{}, violKeys: map[string]bool{}, knownHits: map[string]int{},
		Workers: runtime.NumCPU()}
	if w := os.Getenv("VERIF_WORKERS"); w != "" {
		if n, err := strconv.Atoi(w); err == nil && n > 0 {
			c.Workers = n
		}
	}
	c.loadKnown()
	return c
}

func (c *Ctx) loadKnown() {
	b, err := os.ReadFile(filepath.Join(VerifDir, "known_findings.json"))
	if err != nil {
		return
	}
	var f struct {
		Findings []KnownFinding `json:"findings"`
	}
	if json.Unmarshal(b, &f) == nil {
		c.Known = f.Findings
	}
}

// Quick reports whether this is the quick tier.
func (c *Ctx) Quick() bool { return c.Tier != "thorough" }

// N picks the case count by tier.
func (c *Ctx) N(quick, thorough int) int {
	if c.Quick() {
		return quick
	}
	return thorough
}

// Count adds to a named counter.
func (c *Ctx) Count(name string, d int64) {
	c.mu.Lock()
	c.counters[name] += d
	c.mu.Unlock()
}

// Counter reads a counter.
func (c *Ctx) Counter(name string) int64 {
	c.mu.Lock()
	defer c.mu.Unlock()
	return c.counters[name]
}

// Note adds a free-text note to the evidence.
func (c *Ctx) Note(format string, a ...interface{}) {
	c.mu.Lock()
	if len(c.notes) < 50 {
		c.notes = append(c.notes, fmt.Sprintf(format, a...))
	}
	c.mu.Unlock()
}

// Inconclusive marks the run inconclusive.
func (c *Ctx) Inconclusive(format string, a ...interface{}) {
	c.mu.Lock()
	c.inconclusive = append(c.inconclusive, fmt.Sprintf(format, a...))
	c.mu.Unlock()
}

// Case is the per-case context handed to a case function.
type Case struct {
	C     *Ctx
	Sub   string
	Index int
	R     *rand.Rand
	// local accumulation, merged after the case
	counts   map[string]int64
	distinct []uint64
	src      string
	probe    *Probe
}

// Probe collects the keys and messages of violations reported by a dry run.
type Probe struct {
	Keys []string
	Msgs []string
}

// Has reports whether a violation with the given key was reported.
func (p *Probe) Has(key string) bool {
	for _, k := range p.Keys {
		if k == key {
			return true
		}
	}
	return false
}

// Dry returns a case with the same identity whose observations are discarded
// and whose violations are only recorded in the returned Probe: used to
// re-evaluate an oracle while shrinking a witness.
func (k *Case) Dry() (*Case, *Probe) {
	p := &Probe{}
	return &Case{C: k.C, Sub: k.Sub, Index: k.Index, R: nil, counts: map[string]int64{}, probe: p}, p
}

// Count adds to a counter (merged after the case finishes).
func (k *Case) Count(name string, d int64) { k.counts[name] += d }

// Nontrivial records the shape signature of a non-trivial case.
func (k *Case) Nontrivial(sig ...interface{}) {
	k.distinct = append(k.distinct, Hash64(sig...))
}

// SetSource remembers the source text of the case for violation reports.
func (k *Case) SetSource(s string) { k.src = s }

// Sample offers an actual case for the evidence samples (a few per class kept).
func (k *Case) Sample(class string, v interface{}) {
	if k.probe != nil {
		return
	}
	c := k.C
	c.mu.Lock()
	if c.sampleKeys[class] < 2 && len(c.samples) < 12 {
		c.sampleKeys[class]++
		c.samples = append(c.samples, map[string]interface{}{"class": class, "sub": k.Sub, "index": k.Index, "case": v})
	}
	c.mu.Unlock()
}

// Violation records a witness. key, when non-empty, identifies the failing
// shape for the known-findings file.
func (k *Case) Violation(key, msg string, details map[string]interface{}) {
	if k.probe != nil {
		k.probe.Keys = append(k.probe.Keys, key)
		k.probe.Msgs = append(k.probe.Msgs, msg)
		return
	}
	c := k.C
	c.mu.Lock()
	defer c.mu.Unlock()
	for _, kf := range c.Known {
		if kf.Status == "open" && kf.Property == c.Prop && key != "" && kf.Key == key {
			c.knownHits[key]++
			return
		}
	}
	dk := key
	if dk == "" {
		dk = msg
	}
	c.counters["violations_total"]++
	if c.violKeys[dk] && len(c.violations) >= 1 {
		// keep at most 2 witnesses per distinct key/message
		n := 0
		for _, v := range c.violations {
			if v.Key == key && (key != "" || v.Message == msg) {
				n++
			}
		}
		if n >= 2 {
			return
		}
	}
	if len(c.violations) >= 8 {
		return
	}
	c.violKeys[dk] = true
	c.violations = append(c.violations, Violation{Property: c.Prop, Tier: c.Tier, Seed: c.Seed, Sub: k.Sub, Index: k.Index,
		Message: msg, Source: k.src, Details: details, Key: key})
}

// RunCases executes fn for indices [0,n) of sub-check sub on all workers.
// Each case gets a PRNG determined by (seed, property, sub, index).
func (c *Ctx) RunCases(sub string, n int, fn func(k *Case)) {
	if c.OnlySub != "" {
		if c.OnlySub != sub {
			return
		}
		c.runOne(sub, c.OnlyIndex, fn)
		return
	}
	t0 := time.Now()
	var next int64 = -1
	var wg sync.WaitGroup
	w := c.Workers
	if w > n {
		w = n
	}
	if w < 1 {
		w = 1
	}
	const batch = 16
	for i := 0; i < w; i++ {
		wg.Add(1)
		go func() {
			defer wg.Done()
			for {
				b := int(atomic.AddInt64(&next, 1))
				lo := b * batch
				if lo >= n {
					return
				}
				hi := lo + batch
				if hi > n {
					hi = n
				}
				for idx := lo; idx < hi; idx++ {
					c.runOne(sub, idx, fn)
				}
			}
		}()
	}
	wg.Wait()
	c.mu.Lock()
	c.subs = append(c.subs, map[string]interface{}{"sub": sub, "cases": n, "wall_s": time.Since(t0).Seconds()})
	c.mu.Unlock()
}

// StuckAfter is the wall-clock time after which a single case is considered
// stuck (a loop inside the code under test that no logical clock sees). A stuck
// case can only be reported, not interrupted: the process prints the culprit and
// exits with status 2 (inconclusive) so that a check never hangs forever. C18
// owns the question whether such a hang is a violation (isolated child runs).
var StuckAfter = 180 * time.Second

type runningCase struct {
	sub   string
	idx   int
	start time.Time
}

var (
	runningMu    sync.Mutex
	runningCases = map[*Case]runningCase{}
	watchdogOnce sync.Once
)

func startWatchdog(c *Ctx) {
	watchdogOnce.Do(func() {
		go func() {
			for {
				time.Sleep(2 * time.Second)
				runningMu.Lock()
				for _, rc := range runningCases {
					if time.Since(rc.start) > StuckAfter {
						fmt.Printf("INCONCLUSIVE property=%s reason=case %s/%d has been running for more than %s (stuck in the code under test or in the harness); replay it with VERIF_SEED=%d\n", c.Prop, rc.sub, rc.idx, StuckAfter, c.Seed)
						// violations recorded so far are not lost with the run
						c.mu.Lock()
						if len(c.violations) > 0 && c.OnlySub == "" {
							os.MkdirAll(outDir("replays"), 0o755)
							for i, v := range c.violations {
								if i >= 5 {
									break
								}
								p := filepath.Join(outDir("replays"), fmt.Sprintf("%s-%s-%d-%d.json", c.Prop, c.Tier, c.Seed, i))
								b, _ := json.MarshalIndent(v, "", " ")
								os.WriteFile(p, b, 0o644)
								fmt.Printf("VIOLATION property=%s replay=%s\n", c.Prop, p)
								fmt.Printf("  %s/%d: %s\n", v.Sub, v.Index, firstLine(v.Message))
							}
							fmt.Printf("%s %s seed=%d: violated; ended early by the stuck-case watchdog\n", c.Prop, c.Tier, c.Seed)
							os.Exit(1)
						}
						fmt.Printf("%s %s seed=%d: inconclusive; ended early by the stuck-case watchdog\n", c.Prop, c.Tier, c.Seed)
						os.Exit(2)
					}
				}
				runningMu.Unlock()
			}
		}()
	})
}

func (c *Ctx) runOne(sub string, idx int, fn func(k *Case)) {
	k := &Case{C: c, Sub: sub, Index: idx, R: NewRand(c.Seed, c.Prop, sub, idx), counts: map[string]int64{}}
	startWatchdog(c)
	runningMu.Lock()
	runningCases[k] = runningCase{sub, idx, time.Now()}
	runningMu.Unlock()
	defer func() {
		runningMu.Lock()
		delete(runningCases, k)
		runningMu.Unlock()
	}()
	func() {
		defer func() {
			if r := recover(); r != nil {
				buf := make([]byte, 8192)
				nn := runtime.Stack(buf, false)
				// A panic inside the harness itself is a harness defect, never a verdict
				// about poryscript: it makes the run inconclusive.
				c.Inconclusive("harness panic in %s/%d: %v\n%s", sub, idx, r, buf[:nn])
			}
		}()
		fn(k)
	}()
	c.mu.Lock()
	c.counters["cases"]++
	for n, v := range k.counts {
		c.counters[n] += v
	}
	for _, d := range k.distinct {
		c.distinct[d] = struct{}{}
	}
	c.mu.Unlock()
}

// Exhaustive records a completely enumerated sub-space.
func (c *Ctx) Exhaustive(name string, size int64, note string) {
	c.mu.Lock()
	c.exhaustive = append(c.exhaustive, map[string]interface{}{"space": name, "size": size, "note": note})
	c.mu.Unlock()
}

// Finish writes evidence and replay files, prints verdict lines and returns
// the exit status (0 held, 1 violated, 2 inconclusive).
func (c *Ctx) Finish(rule string, minNontrivial int, assumptions []string) int {
	c.mu.Lock()
	defer c.mu.Unlock()
	wall := time.Since(c.Start).Seconds()
	evals := c.counters["evaluations"]
	if evals == 0 {
		evals = c.counters["cases"]
	}
	status := 0
	// replay files
	var replayPaths []string
	if len(c.violations) > 0 && c.OnlySub == "" {
		os.MkdirAll(outDir("replays"), 0o755)
		for i, v := range c.violations {
			p := filepath.Join(outDir("replays"), fmt.Sprintf("%s-%s-%d-%d.json", c.Prop, c.Tier, c.Seed, i))
			b, _ := json.MarshalIndent(v, "", " ")
			os.WriteFile(p, b, 0o644)
			replayPaths = append(replayPaths, p)
		}
	}
	if c.OnlySub != "" {
		for _, v := range c.violations {
			b, _ := json.MarshalIndent(v, "", " ")
			fmt.Printf("REPLAY-VIOLATION %s\n", b)
		}
		if len(c.violations) > 0 {
			return 1
		}
		fmt.Println("REPLAY-OK: the case no longer violates")
		return 0
	}
	for key, n := range c.knownHits {
		what := ""
		for _, kf := range c.Known {
			if kf.Key == key && kf.Property == c.Prop {
				what = kf.What
			}
		}
		fmt.Printf("KNOWN-FINDING: property=%s %s (key=%s, %d occurrences this run)\n", c.Prop, what, key, n)
	}
	if len(c.violations) > 0 {
		status = 1
		for i, v := range c.violations {
			if i >= 5 {
				break
			}
			fmt.Printf("VIOLATION property=%s replay=%s\n", c.Prop, replayPaths[i])
			fmt.Printf("  %s/%d: %s\n", v.Sub, v.Index, firstLine(v.Message))
		}
	}
	nd := int64(len(c.distinct))
	if status == 0 {
		if len(c.inconclusive) > 0 {
			status = 2
		} else if nd < int64(minNontrivial) {
			c.inconclusive = append(c.inconclusive, fmt.Sprintf("only %d distinct non-trivial cases observed (minimum %d)", nd, minNontrivial))
			status = 2
		}
	}
	for _, r := range c.inconclusive {
		fmt.Printf("INCONCLUSIVE property=%s reason=%s\n", c.Prop, firstLine(r))
	}
	cov := map[string]interface{}{
		"evaluations":         evals,
		"distinct_nontrivial": nd,
		"rule":                rule,
		"samples":             c.samples,
		"counters":            c.counters,
		"sub_checks":          c.subs,
		"compilations":        atomic.LoadInt64(&Compilations),
	}
	if len(c.exhaustive) > 0 {
		cov["exhaustive_subspaces"] = c.exhaustive
	}
	if len(c.notes) > 0 {
		cov["notes"] = c.notes
	}
	if len(c.inconclusive) > 0 {
		cov["inconclusive"] = c.inconclusive
	}
	if len(c.knownHits) > 0 {
		cov["known_finding_hits"] = c.knownHits
	}
	if len(c.samples) == 0 {
		cov["samples"] = []interface{}{"(no sample recorded)"}
	}
	verdict := map[int]string{0: "held on what was observed", 1: "violated", 2: "inconclusive"}[status]
	cov["verdict"] = verdict
	if len(c.violations) > 0 {
		var vs []interface{}
		for _, v := range c.violations {
			vs = append(vs, map[string]interface{}{"sub": v.Sub, "index": v.Index, "message": v.Message, "key": v.Key})
		}
		cov["violation_witnesses"] = vs
	}
	ev := map[string]interface{}{
		"property_id": c.Prop,
		"tier":        c.Tier,
		"seed":        c.Seed,
		"level":       "exploration",
		"coverage":    cov,
		"assumptions": assumptions,
		"wall_s":      wall,
		"violations":  len(c.violations),
	}
	b, _ := json.MarshalIndent(ev, "", " ")
	os.MkdirAll(outDir("evidence"), 0o755)
	if err := os.WriteFile(filepath.Join(outDir("evidence"), c.Prop+".json"), b, 0o644); err != nil {
		fmt.Printf("INCONCLUSIVE property=%s reason=cannot write evidence: %v\n", c.Prop, err)
		if status == 0 {
			status = 2
		}
	}
	keys := make([]string, 0, len(c.counters))
	for k := range c.counters {
		keys = append(keys, k)
	}
	sort.Strings(keys)
	var sb strings.Builder
	for _, k := range keys {
		fmt.Fprintf(&sb, " %s=%d", k, c.counters[k])
	}
	fmt.Printf("%s %s seed=%d: %s; distinct_nontrivial=%d wall=%.1fs;%s\n", c.Prop, c.Tier, c.Seed, verdict, nd, wall, sb.String())
	return status
}

func firstLine(s string) string {
	if i := strings.IndexByte(s, '\n'); i >= 0 {
		s = s[:i]
	}
	if len(s) > 300 {
		s = s[:300]
	}
	return s
}

// Pick returns a random element.
func Pick[T any](r *rand.Rand, xs []T) T { return xs[r.IntN(len(xs))] }

// Chance returns true with probability p.
func Chance(r *rand.Rand, p float64) bool { return r.Float64() < p }

// Local reads a counter of this case (before it is merged).
func (k *Case) Local(name string) int64 { return k.counts[name] }
