package checks

import (
	"fmt"
	"strings"

	"verif.local/pvmon/internal/asm"
	"verif.local/pvmon/internal/h"
	"verif.local/pvmon/internal/spec"
)

func init() { Registry["C14"] = runC14 }

var multPool = []string{"1", "2", "3", "6", "9", "0x2", "0xA", "0xb", "10", "57"}

// c14List generates a step/item list with commas anywhere, multipliers,
// explicit terminators anywhere and poryswitch parts.
func c14List(k *h.Case, g *spec.Gen, movement bool, maxLen, depth int, allowBig bool) []*spec.ListElem {
	r := k.R
	es := []*spec.ListElem{}
	n := r.IntN(maxLen + 1)
	for i := 0; i < n; i++ {
		if depth < 2 && r.IntN(8) == 0 {
			ps := &spec.PSList{Key: []string{"GAME", "LANG"}[r.IntN(2)]}
			names := []string{"RUBY", "SAPPHIRE", "1", "_"}
			r.Shuffle(len(names), func(i, j int) { names[i], names[j] = names[j], names[i] })
			for _, nm := range names[:2+r.IntN(3)] {
				c := &spec.PSListCase{Name: nm, Brace: r.IntN(2) == 0}
				if c.Brace {
					c.Elems = c14List(k, g, movement, 4, depth+1, false)
				} else {
					for len(c.Elems) != 1 || c.Elems[0].Name == "," {
						c.Elems = c14List(k, g, movement, 1, depth+1, false) // (may itself be a poryswitch)
					}
					c.Elems[0].Comma = false
				}
				ps.Cases = append(ps.Cases, c)
			}
			es = append(es, &spec.ListElem{ID: g.Prog.NewID(), PS: ps})
			continue
		}
		e := &spec.ListElem{ID: g.Prog.NewID()}
		if movement {
			switch {
			case r.IntN(10) == 0:
				e.Name = "step_end"
			case r.IntN(12) == 0 && depth == 0:
				e.Name = "," // a stray comma (ignored by the grammar)
			default:
				e.Name = []string{"walk_left", "walk_right", "walk_up", "walk_down", "face_player", "delay_16", "delay_1", "jump_2_left", "ステップ", "walk_1", "walk_12"}[r.IntN(11)]
			}
			if e.Name != "," {
				if r.IntN(3) == 0 {
					e.Mult = multPool[r.IntN(len(multPool))]
				}
				if allowBig && r.IntN(40) == 0 {
					e.Mult = []string{"9999", "0x270F", "5000"}[r.IntN(3)]
				}
				e.Comma = r.IntN(3) == 0
			}
		} else {
			e.Name = []string{"ITEM_POTION", "ITEM_POKE_BALL", "ITEM_RARE_CANDY", "ITEM_LEMONADE", "ITEM_X", "ITEM_Ü"}[r.IntN(6)]
			if r.IntN(6) == 0 {
				// names of other families and near-misses of the terminator: ordinary items wherever they stand
				e.Name = []string{"DECOR_PIKA_CUSHION", "DECOR_NONE", "DECOR_TV", "ITEM_NONE_2", "item_none", "NONE", "TM01", "ITEM_NONEX", "MART_END"}[r.IntN(9)]
			}
			if r.IntN(9) == 0 {
				e.Name = "ITEM_NONE"
			}
			if r.IntN(8) == 0 {
				// a constant (defined at the top of the file); LAST_ITEM expands to the terminator
				e.Name = []string{"$LAST_ITEM", "$SHOP_ITEM_A", "$SHOP_ITEM_B", "$SHOP_EXPR"}[r.IntN(4)]
			}
		}
		es = append(es, e)
	}
	return es
}

func expandStepsSkipCommas(es []*spec.ListElem) []string {
	var kept []*spec.ListElem
	for _, e := range es {
		if e.Name != "," {
			kept = append(kept, e)
		}
	}
	return expandSteps(kept)
}

func truncateAtTerminator(list []string, term string) []string {
	for i, s := range list {
		if s == term {
			return append([]string{}, list[:i+1]...)
		}
	}
	return append(append([]string{}, list...), term)
}

func runC14(ctx *h.Ctx) int {
	ctx.RunCases("lists", ctx.N(40000, 600000), func(k *h.Case) {
		g := spec.NewGen(k.R, spec.Profile{})
		prog := g.Prog
		prog.Switches["GAME"] = []string{"RUBY", "SAPPHIRE", "1", "zzz"}[k.R.IntN(4)]
		prog.Switches["LANG"] = []string{"RUBY", "SAPPHIRE", "1", "zzz"}[k.R.IntN(4)]
		prog.Items = append(prog.Items,
			&spec.Const{ID: prog.NewID(), Name: "LAST_ITEM", Value: []string{"ITEM_NONE"}},
			&spec.Const{ID: prog.NewID(), Name: "SHOP_ITEM_A", Value: []string{"ITEM_ESCAPE_ROPE"}},
			&spec.Const{ID: prog.NewID(), Name: "SHOP_ITEM_B", Value: []string{"$SHOP_ITEM_A"}},
			// a constant of several tokens is still ONE item
			&spec.Const{ID: prog.NewID(), Name: "SHOP_EXPR", Value: []string{"ITEMS_START", "+", "2"}})
		constVal := map[string]string{"$LAST_ITEM": "ITEM_NONE", "$SHOP_ITEM_A": "ITEM_ESCAPE_ROPE", "$SHOP_ITEM_B": "ITEM_ESCAPE_ROPE", "$SHOP_EXPR": "ITEMS_START + 2"}
		n := 1 + k.R.IntN(3)
		var script *spec.Script
		for i := 0; i < n; i++ {
			switch k.R.IntN(3) {
			case 0:
				m := &spec.MovementItem{ID: prog.NewID(), Name: g.Name("Mov"), Scope: k.R.IntN(3)}
				m.Steps = c14List(k, g, true, []int{3, 8, 30}[k.R.IntN(3)], 0, k.Index%10 == 0)
				prog.Items = append(prog.Items, m)
			case 1:
				m := &spec.MartItem{ID: prog.NewID(), Name: g.Name("Mart"), Scope: k.R.IntN(3)}
				m.Items = c14List(k, g, false, []int{3, 8, 20}[k.R.IntN(3)], 0, false)
				prog.Items = append(prog.Items, m)
			default:
				if script == nil {
					script = &spec.Script{ID: prog.NewID(), Name: g.Name("Scr"), Body: &spec.Block{ID: prog.NewID()}}
					prog.Items = append(prog.Items, script)
				}
				c := &spec.Cmd{ID: prog.NewID(), Name: g.Name("applymovement"), Args: []*spec.Arg{{Toks: []string{"1"}}, {Moves: c14List(k, g, true, 8, 0, false)}}}
				script.Body.Stmts = append(script.Body.Stmts, &spec.CmdStmt{Cmd: c})
				if k.R.IntN(8) == 0 {
					// a second list that differs from a plain one in one place only, where `delay_16` stands against
					// `delay_1 * 6` (name + count spell the same characters): different content, two blocks
					pair := [][3]string{{"delay_16", "delay_1", "6"}, {"walk_12", "walk_1", "2"}, {"walk_12", "walk_", "12"}, {"jump_22", "jump_2", "2"}}[k.R.IntN(4)]
					common := []string{"walk_left", "face_player", "walk_up"}[:1+k.R.IntN(3)]
					mk := func(mid *spec.ListElem) []*spec.ListElem {
						var es []*spec.ListElem
						for _, nm := range common {
							es = append(es, &spec.ListElem{ID: prog.NewID(), Name: nm})
						}
						return append(es, mid, &spec.ListElem{ID: prog.NewID(), Name: "walk_down"})
					}
					a := &spec.Cmd{ID: prog.NewID(), Name: g.Name("applymovement"), Args: []*spec.Arg{{Toks: []string{"2"}}, {Moves: mk(&spec.ListElem{ID: prog.NewID(), Name: pair[0]})}}}
					b := &spec.Cmd{ID: prog.NewID(), Name: g.Name("applymovement"), Args: []*spec.Arg{{Toks: []string{"3"}}, {Moves: mk(&spec.ListElem{ID: prog.NewID(), Name: pair[1], Mult: pair[2]})}}}
					script.Body.Stmts = append(script.Body.Stmts, &spec.CmdStmt{Cmd: a}, &spec.CmdStmt{Cmd: b})
					k.Count("files_with_lists_spelled_alike", 1)
				}
			}
		}
		rp, rerr := spec.Resolve(prog, prog.Switches)
		pr := layoutOf(k, prog, 0.3)
		k.SetSource(pr.Src)
		oo := optsOf(prog, k.R.IntN(2) == 0)
		if k.R.IntN(3) == 0 {
			// with line markers (the CLI default): the blocks are the same, with marker lines in between
			oo.LM, oo.Path = true, "maps/in.pory"
			k.Count("files_compiled_with_line_markers", 1)
		}
		res := h.Compile(pr.Src, oo)
		k.Count("evaluations", 1)
		if !res.OK() {
			k.Count("rejected", 1)
			k.Count("rejected: "+rejectFamily(res.ErrString()), 1)
			// every generated list is valid (multipliers 1..9999): the only rejection the generator can foresee is a
			// poryswitch without matching case; rejecting a valid list emits nothing at all
			rejectedValid(k, prog, res, true)
			return
		}
		if rerr != nil {
			acceptedUnmatched(k)
			return
		}
		k.Count("accepted", 1)
		f := asm.Parse(res.Out)
		bad := func(key, format string, a ...interface{}) {
			k.Violation(key, fmt.Sprintf(format, a...), map[string]interface{}{"output": res.Out})
		}
		for _, it := range rp.Items {
			switch x := it.(type) {
			case *spec.MovementItem:
				defs := f.Labels[x.Name]
				if len(defs) != 1 {
					bad("movement-label", "movement %q defined %d times", x.Name, len(defs))
					return
				}
				want := truncateAtTerminator(expandStepsSkipCommas(x.Steps), "step_end")
				got := movementBlock(f, defs[0])
				if !eqStrings(got, want) {
					bad("movement-content", "movement %s: emitted %v, expected %v", x.Name, got, want)
					return
				}
				k.Count("movement_blocks_checked", 1)
				k.Count("steps_checked", int64(len(want)))
				k.Nontrivial("mov", sigOfList(x.Steps))
			case *spec.MartItem:
				defs := f.Labels[x.Name]
				if len(defs) != 1 {
					bad("mart-label", "mart %q defined %d times", x.Name, len(defs))
					return
				}
				p := f.PrevCode(defs[0])
				if p < 0 || strings.TrimSpace(f.Lines[p].Text) != ".align 2" {
					bad("mart-align", "mart %s is not preceded by '.align 2'", x.Name)
					return
				}
				var items []string
				for _, e := range x.Items {
					if v, ok := constVal[e.Name]; ok {
						items = append(items, v)
						k.Count("mart_items_from_constants", 1)
					} else {
						items = append(items, e.Name)
					}
				}
				want := []string{}
				for _, s := range truncateAtTerminator(items, "ITEM_NONE") {
					want = append(want, ".2byte "+s)
				}
				got, _ := textBlock(f, defs[0])
				if !eqStrings(got, want) {
					bad("mart-content", "mart %s: emitted %v, expected %v", x.Name, got, want)
					return
				}
				k.Count("mart_blocks_checked", 1)
				k.Nontrivial("mart", sigOfList(x.Items))
			case *spec.Script:
				lm := buildLabelModel(rp)
				for _, m := range lm.Moves {
					defs := f.Labels[m.Label]
					if len(defs) != 1 {
						bad("moves-label", "hoisted movement %q defined %d times", m.Label, len(defs))
						return
					}
					want := truncateAtTerminator(expandStepsSkipCommas(m.First.Moves), "step_end")
					got := movementBlock(f, defs[0])
					if !eqStrings(got, want) {
						bad("moves-content", "moves() block %s: emitted %v, expected %v", m.Label, got, want)
						return
					}
					k.Count("moves_blocks_checked", 1)
					k.Nontrivial("moves", sigOfList(m.First.Moves))
				}
			}
		}
		k.Sample("lists", pr.Src)
	})
	// multipliers outside 1..9999 must be rejected
	badMults := []string{"0", "-1", "-9999", "10000", "0x2710", "99999", "0x0", "4294967296", "99999999999999999999", "18446744073709551617", "-0x1"}
	// several maximal lists in ONE script / one mapscripts statement: each block is legal on its own, and legality
	// of one block does not depend on the others
	ctx.RunCases("many-large-lists", ctx.N(12, 200), func(k *h.Case) {
		g := spec.NewGen(k.R, spec.Profile{})
		prog := g.Prog
		n := 6 + k.R.IntN(3)
		sc := &spec.Script{ID: prog.NewID(), Name: g.Name("ScrBig"), Body: &spec.Block{ID: prog.NewID()}}
		var want [][]string
		for i := 0; i < n; i++ {
			step := fmt.Sprintf("walk_%d", i)
			mult := []string{"9999", "0x270F", "9998", "5000"}[k.R.IntN(4)]
			c := &spec.Cmd{ID: prog.NewID(), Name: g.Name("applymovement"), Args: []*spec.Arg{{Toks: []string{fmt.Sprint(i)}}, {Moves: []*spec.ListElem{{ID: prog.NewID(), Name: "face_down"}, {ID: prog.NewID(), Name: step, Mult: mult}}}}}
			sc.Body.Stmts = append(sc.Body.Stmts, &spec.CmdStmt{Cmd: c})
			want = append(want, expandStepsSkipCommas(c.Args[1].Moves))
		}
		prog.Items = append(prog.Items, sc)
		src := spec.Source(prog)
		k.SetSource(src)
		res := h.Compile(src, optsOf(prog, k.R.IntN(2) == 0))
		k.Count("evaluations", 1)
		if !res.OK() {
			rejectedValid(k, prog, res, true)
			return
		}
		f := asm.Parse(res.Out)
		for i, w := range want {
			lbl := fmt.Sprintf("%s_Movement_%d", sc.Name, i)
			defs := f.Labels[lbl]
			if len(defs) != 1 {
				k.Violation("large-list-label", fmt.Sprintf("hoisted movement %q is defined %d times", lbl, len(defs)), nil)
				return
			}
			got := movementBlock(f, defs[0])
			if !eqStrings(got, append(append([]string{}, w...), "step_end")) {
				k.Violation("large-list-content", fmt.Sprintf("hoisted movement %s: %d lines emitted, expected %d steps + step_end", lbl, len(got), len(w)), nil)
				return
			}
			k.Count("steps_checked", int64(len(w)))
		}
		k.Count("scripts_with_many_large_lists", 1)
		k.Nontrivial("big", n)
	})
	ctx.RunCases("bad-multipliers", ctx.N(600, 10000), func(k *h.Case) {
		g := spec.NewGen(k.R, spec.Profile{})
		prog := g.Prog
		steps := c14List(k, g, true, 6, 2, false)
		var plain []*spec.ListElem
		for _, e := range steps {
			if e.Name != "," {
				plain = append(plain, e)
			}
		}
		if len(plain) == 0 {
			plain = []*spec.ListElem{{ID: prog.NewID(), Name: "walk_up"}}
		}
		bm := badMults[k.Index%len(badMults)]
		plain[k.R.IntN(len(plain))].Mult = bm
		if k.R.IntN(2) == 0 {
			prog.Items = append(prog.Items, &spec.MovementItem{ID: prog.NewID(), Name: g.Name("Mov"), Steps: plain})
		} else {
			c := &spec.Cmd{ID: prog.NewID(), Name: "applymovement", Args: []*spec.Arg{{Toks: []string{"1"}}, {Moves: plain}}}
			prog.Items = append(prog.Items, &spec.Script{ID: prog.NewID(), Name: g.Name("Scr"), Body: &spec.Block{ID: prog.NewID(), Stmts: []spec.Stmt{&spec.CmdStmt{Cmd: c}}}})
		}
		pr := layoutOf(k, prog, 0.3)
		k.SetSource(pr.Src)
		res := h.Compile(pr.Src, optsOf(prog, true))
		k.Count("evaluations", 1)
		if res.Panic != nil {
			k.Violation("bad-mult-panic", fmt.Sprintf("multiplier %s: panic %v", bm, res.Panic), nil)
			return
		}
		if res.Err == nil {
			k.Violation("bad-mult-accepted", fmt.Sprintf("multiplier %s is outside 1..9999 but the program compiled", bm), map[string]interface{}{"output_head": firstN(res.Out, 400)})
			return
		}
		k.Count("bad_multipliers_rejected", 1)
		k.Nontrivial("badmult", bm, len(plain))
	})
	return ctx.Finish(
		"movement statements and moves() with 0..30 steps, commas anywhere, multipliers (decimal and hex, up to 9999), step_end at any position and multiplied, poryswitch-selected parts; mart statements with 0..20 items, ITEM_NONE anywhere, poryswitch parts. Oracle: the emitted block equals the expanded list up to and including the first terminator, else the whole list followed by exactly one terminator; mart preceded by .align 2, one .2byte per item. Multipliers 0, negative, 10000, 0x2710 and huge must be rejected. distinct = list signature (lengths, multipliers, terminator positions)",
		ctx.N(1000, 10000),
		[]string{"multipliers with a leading 0 other than 0x are not generated (octal reading is not specified)"})
}

func firstN(s string, n int) string {
	if len(s) > n {
		return s[:n]
	}
	return s
}

func sigOfList(es []*spec.ListElem) string {
	var sb strings.Builder
	for _, e := range es {
		switch {
		case e.Name == "step_end" || e.Name == "ITEM_NONE":
			sb.WriteString("E")
		case e.Name == ",":
			sb.WriteString(",")
		default:
			sb.WriteString("s")
		}
		if e.Mult != "" {
			sb.WriteString("*" + e.Mult)
		}
	}
	return sb.String()
}
