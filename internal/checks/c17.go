package checks

import (
	"bytes"
	"encoding/json"
	"fmt"
	"github.com/huderlem/poryscript/parser"
	"os"
	"os/exec"
	"path/filepath"
	"regexp"
	"sort"
	"strings"
	"sync"

	"verif.local/pvmon/internal/h"
	"verif.local/pvmon/internal/spec"
)

func init() {
	Registry["C17"] = runC17
	WorkerFns["c17race"] = c17RaceWorker
}

type c17Result struct {
	Out string
	Err string
}

func c17Compile(src string, o h.Opts) c17Result {
	r := h.Compile(src, o)
	res := c17Result{Out: r.Out}
	if r.Panic != nil {
		res.Err = fmt.Sprintf("PANIC %v", r.Panic)
	} else if r.Err != nil {
		res.Err = fmt.Sprintf("%#v", r.Err)
	}
	return res
}

// c17Input builds one input (valid or invalid) with its options.
func c17Input(k *h.Case, variant int) (string, h.Opts, string) {
	prof := profFull()
	prof.PFormat = 0.3
	g := spec.NewGen(k.R, prof)
	prog := g.FullProgram(1 + k.R.IntN(4))
	pr := layoutOf(k, prog, 0.2)
	src := pr.Src
	o := optsOf(prog, k.R.IntN(2) == 0)
	if k.R.IntN(2) == 0 {
		o.LM, o.Path = true, "dir/in.pory"
	}
	class := "valid"
	if k.R.IntN(2) == 0 {
		// format() with control codes under an explicit font: the same words are measured under
		// different fonts by different inputs of this process
		font := []string{"1_latin_rse", "1_latin_frlg"}[k.R.IntN(2)]
		src += "\ntext " + g.Name("TxtCc") + " { format(\"Press {UP_ARROW} {UP_ARROW} {DOWN_ARROW} {UP_ARROW} {LEFT_ARROW} {UP_ARROW} {RIGHT_ARROW} {UP_ARROW} {UP_ARROW} {DOWN_ARROW} {UP_ARROW} {UP_ARROW} {LEFT_ARROW} {UP_ARROW} {UP_ARROW} to continue {PLAYER}.\", \"" + font + "\") }\n"
	}
	switch variant % 10 {
	case 9: // a font config with several fonts and no default font id, format() without a font id: whatever happens must not vary
		o.FontPath = noDefaultFontConfig()
		src += "\ntext " + g.Name("TxtNd") + " { format(\"Hello there my good friend, how are you doing on this fine day of spring?\") }\nscript " + g.Name("ScrNd") + " { msgbox(format(\"Another fairly long line of text that has to be wrapped somewhere, surely.\")) }\n"
		class = "font-config-without-default"
	case 8: // two errors that only the emitter finds, in two scripts of similar size: which one is reported must not vary
		a, b := g.Name("TxtClashA"), g.Name("TxtClashB")
		body := strings.Repeat("lock\nrelease\n", 1+k.R.IntN(6))
		src += "\ntext " + a + " { \"one\" }\ntext " + b + " { \"two\" }\nscript " + g.Name("ScrClashA") + " {\n" + body + a + ":\nend\n}\nscript " + g.Name("ScrClashB") + " {\n" + body + b + ":\nend\n}\n"
		class = "two-emitter-errors"
	case 6: // two different duplicated text labels: which one is reported must not vary
		a, b := g.Name("TxtDupA"), g.Name("TxtDupB")
		src += "\ntext " + a + " { \"one\" }\ntext " + b + " { \"two\" }\ntext " + a + " { \"three\" }\ntext " + b + " { \"four\" }\n"
		class = "two-duplicate-texts"
	case 7: // two different duplicated movement labels
		a, b := g.Name("MovDupA"), g.Name("MovDupB")
		src += "\nmovement " + a + " { walk_up }\nmovement " + b + " { walk_down }\nmovement " + a + " { walk_left }\nmovement " + b + " { walk_right }\n"
		class = "two-duplicate-movements"
	case 1: // unknown font id with the two-font repository config: error text lists the fonts
		src += "\ntext " + g.Name("TxtF") + " { format(\"some words here\", \"nofont\") }\n"
		class = "unknown-font"
	case 2: // unknown default font id
		o.FontID = "nofont"
		src += "\ntext " + g.Name("TxtG") + " { format(\"some words here\") }\n"
		class = "unknown-default-font"
	case 3: // token deleted somewhere: some parse error
		if len(pr.Lex) > 2 {
			i := k.R.IntN(len(pr.Lex))
			lx := pr.Lex[i]
			src = src[:lx.Off] + src[lx.Off+len(lx.S):]
			class = "token-deleted"
		}
	case 4: // named format parameters
		src += "\ntext " + g.Name("TxtN") + " { format(\"Hello there you, how are you doing today my friend\", numLines=3, maxLineLength=90, cursorOverlapWidth=4, fontId=\"1_latin_frlg\") }\n"
		class = "named-format-params"
	case 5: // missing switch value
		o.Switches = map[string]string{}
		class = "no-switches"
	}
	return src, o, class
}

var noDefaultFontOnce sync.Once
var noDefaultFontPath string

// noDefaultFontConfig writes (once) a font config with three fonts of different widths and line lengths and no
// defaultFontId, and returns its path.
func noDefaultFontConfig() string {
	noDefaultFontOnce.Do(func() {
		dir := filepath.Join(h.VerifDir, ".work", "C17")
		os.MkdirAll(dir, 0o755)
		noDefaultFontPath = filepath.Join(dir, fmt.Sprintf("fonts_no_default_%d.json", os.Getpid()))
		os.WriteFile(noDefaultFontPath, []byte(`{"fonts":{"narrow":{"widths":{"default":3},"maxLineLength":40,"numLines":2},"wide":{"widths":{"default":9},"maxLineLength":200,"numLines":3},"mid":{"widths":{"default":6},"maxLineLength":90,"numLines":2,"cursorOverlapWidth":10}}}`), 0o644)
	})
	return noDefaultFontPath
}

var hoistedRe = regexp.MustCompile(`[^\s,:]+_(?:Text|Movement)_\d+`)

// normBlocks splits an output into blank-line separated blocks with hoisted
// label names replaced by a hash of the content they denote.
func normBlocks(out string) (plain map[string]int, hoisted map[string]bool) {
	raw := strings.Split(strings.TrimRight(out, "\n"), "\n\n")
	var blocks []string
	for _, b := range raw {
		b = strings.Trim(b, "\n")
		if b != "" {
			blocks = append(blocks, b)
		}
	}
	content := map[string]string{}
	for _, b := range blocks {
		lines := strings.SplitN(b, "\n", 2)
		name := strings.TrimRight(lines[0], ":")
		if strings.HasSuffix(lines[0], ":") && hoistedRe.MatchString(name) && hoistedRe.FindString(name) == name && len(lines) == 2 {
			content[name] = fmt.Sprintf("<H%x>", h.Hash64(lines[1]))
		}
	}
	repl := func(s string) string {
		return hoistedRe.ReplaceAllStringFunc(s, func(m string) string {
			if c, ok := content[m]; ok {
				return c
			}
			return m
		})
	}
	plain, hoisted = map[string]int{}, map[string]bool{}
	for _, b := range blocks {
		lines := strings.SplitN(b, "\n", 2)
		name := strings.TrimRight(lines[0], ":")
		if _, ok := content[name]; ok && strings.HasSuffix(lines[0], ":") {
			hoisted[repl(b)] = true
		} else {
			plain[repl(b)]++
		}
	}
	return plain, hoisted
}

// c17Independence compiles a file, the same statements in the opposite order, and every top-level statement on
// its own, and compares the emitted blocks (up to numbering / sharing of hoisted labels).
func c17Independence(k *h.Case, prog *spec.Program, opt bool) bool {
	full := h.Compile(spec.Source(prog), optsOf(prog, opt))
	k.Count("evaluations", 1)
	k.SetSource(spec.Source(prog))
	// the same statements in the opposite order: same acceptance, same blocks
	rev := &spec.Program{AutoVars: prog.AutoVars, Switches: prog.Switches}
	for i := len(prog.Items) - 1; i >= 0; i-- {
		rev.Items = append(rev.Items, prog.Items[i])
	}
	rres := h.Compile(spec.Source(rev), optsOf(prog, opt))
	k.Count("evaluations", 1)
	if full.OK() != rres.OK() {
		k.Violation("order-changes-acceptance", fmt.Sprintf("the file is accepted in one order of its top-level statements and rejected in the other: original order %q, reversed %q", full.ErrString(), rres.ErrString()), map[string]interface{}{"reversed_source": spec.Source(rev)})
		return false
	}
	if !full.OK() {
		k.Count("rejected", 1)
		if full.Panic == nil && !strings.Contains(full.ErrString(), "no poryswitch case found") {
			// every statement compiles on its own, the file does not: what is emitted for a statement (here:
			// nothing) depends on its neighbours
			allAlone := true
			for _, it := range prog.Items {
				alone := &spec.Program{AutoVars: prog.AutoVars, Switches: prog.Switches, Items: []spec.Item{it}}
				if r := h.Compile(spec.Source(alone), optsOf(prog, opt)); !r.OK() {
					allAlone = false
					break
				}
			}
			if allAlone {
				k.Violation("file-rejected-statements-accepted", fmt.Sprintf("each of the %d top-level statements compiles on its own, in a file together they are rejected: %s", len(prog.Items), full.ErrString()), nil)
				return false
			}
		}
		rejectedValid(k, prog, full, false)
		return false
	}
	fp, fh := normBlocks(full.Out)
	rp0, rh0 := normBlocks(rres.Out)
	same := len(fp) == len(rp0) && len(fh) == len(rh0)
	for b, n := range fp {
		if rp0[b] != n {
			same = false
		}
	}
	for b := range fh {
		if !rh0[b] {
			same = false
		}
	}
	if !same {
		k.Violation("order-changes-code", "the same top-level statements in the opposite order emit different blocks (beyond numbering/sharing of hoisted labels)", map[string]interface{}{"original": full.Out, "reversed": rres.Out})
		return false
	}
	k.Count("order_pairs_equal", 1)
	sumPlain := map[string]int{}
	unionH := map[string]bool{}
	for i, it := range prog.Items {
		alone := &spec.Program{AutoVars: prog.AutoVars, Switches: prog.Switches, Items: []spec.Item{it}}
		r := h.Compile(spec.Source(alone), optsOf(prog, opt))
		k.Count("evaluations", 1)
		if !r.OK() {
			k.Violation("alone-rejected", fmt.Sprintf("top-level statement %d compiles inside the file but is rejected on its own: %s", i, r.ErrString()), map[string]interface{}{"alone": spec.Source(alone)})
			return false
		}
		ap, ah := normBlocks(r.Out)
		for b, n := range ap {
			sumPlain[b] += n
			if fp[b] < n {
				k.Violation("depends-on-neighbours", fmt.Sprintf("top-level statement %d: a block emitted when it is compiled alone does not occur (unchanged, up to hoisted-label names) in the output of the whole file:\n%s", i, b), map[string]interface{}{"full": full.Out, "alone": r.Out, "alone_source": spec.Source(alone)})
				return false
			}
		}
		for b := range ah {
			unionH[b] = true
			if !fh[b] {
				k.Violation("hoisted-differs", fmt.Sprintf("top-level statement %d: a hoisted text/movement emitted when compiled alone has no counterpart with the same content in the whole file:\n%s", i, b), map[string]interface{}{"full": full.Out, "alone": r.Out})
				return false
			}
		}
	}
	for b, n := range fp {
		if sumPlain[b] != n {
			k.Violation("extra-blocks", fmt.Sprintf("the whole file emits a block %d time(s) that the statements compiled one by one emit %d time(s):\n%s", n, sumPlain[b], b), map[string]interface{}{"full": full.Out})
			return false
		}
	}
	for b := range fh {
		if !unionH[b] {
			k.Violation("extra-hoisted", fmt.Sprintf("the whole file emits a hoisted block no single statement accounts for:\n%s", b), map[string]interface{}{"full": full.Out})
			return false
		}
	}
	k.Count("files_decomposed", 1)
	k.Count("statements_compiled_alone", int64(len(prog.Items)))
	k.Nontrivial("indep", len(prog.Items), len(fp), len(fh))
	return true
}

func runC17(ctx *h.Ctx) int {
	reps := 20
	// (a) repeat in one process, interleaved with other inputs (and with 15 other workers compiling concurrently)
	ctx.RunCases("repeat", ctx.N(480, 60000), func(k *h.Case) {
		src, o, class := c17Input(k, k.Index)
		k.SetSource(src)
		other, oo, _ := c17Input(k, k.Index+3)
		base := c17Compile(src, o)
		k.Count("evaluations", 1)
		n := reps
		if class == "named-format-params" {
			n = 60
		}
		if class == "unknown-font" || class == "unknown-default-font" || class == "two-duplicate-texts" || class == "two-duplicate-movements" || class == "two-emitter-errors" || class == "font-config-without-default" {
			n = 200 // map-order sensitive: a 2-entry map shows its minority order with probability 1/8 per iteration
		}
		for i := 0; i < n; i++ {
			if i%3 == 0 {
				c17Compile(other, oo)
			}
			r := c17Compile(src, o)
			k.Count("evaluations", 1)
			if r != base {
				k.Violation("nondeterministic-"+class, fmt.Sprintf("[%s] repetition %d differs from the first compilation\n first error: %s\n now:         %s\n outputs equal: %v", class, i, base.Err, r.Err, base.Out == r.Out), map[string]interface{}{"first": base.Out, "now": r.Out})
				return
			}
		}
		k.Count("class:"+class, 1)
		if base.Err != "" {
			k.Count("inputs_with_error", 1)
		} else {
			k.Count("inputs_accepted", 1)
		}
		k.Nontrivial(class, len(src)/64, base.Err != "", len(base.Out)/128)
		k.Sample(class, map[string]interface{}{"source": firstN(src, 600), "error": base.Err})
	})
	// (a') fresh processes
	ctx.RunCases("fresh-processes", ctx.N(24, 300), func(k *h.Case) {
		prof := profFull()
		g := spec.NewGen(k.R, prof)
		prog := g.FullProgram(1 + k.R.IntN(4))
		src := spec.Source(prog)
		if k.Index%3 == 1 {
			src += "\ntext TxtFontErr { format(\"some words here\", \"nofont\") }\n"
		}
		k.SetSource(src)
		dir := workDir(k)
		defer cleanWork(dir)
		var first cliResult
		for i := 0; i < 3; i++ {
			r := runCLI(dir, src, prog, true, false)
			k.Count("evaluations", 1)
			if r.Err != nil {
				k.C.Inconclusive("cannot run CLI: %v", r.Err)
				return
			}
			if i == 0 {
				first = r
				continue
			}
			if r.Out != first.Out || r.Exit != first.Exit || r.Stderr != first.Stderr {
				k.Violation("nondeterministic-across-processes", fmt.Sprintf("process %d differs: exit %d vs %d; stderr %q vs %q; outputs equal: %v", i, r.Exit, first.Exit, firstLineOf(r.Stderr), firstLineOf(first.Stderr), r.Out == first.Out), nil)
				return
			}
		}
		lib := h.Compile(src, optsOf(prog, true))
		if lib.OK() && first.Exit == 0 && lib.Out != first.Out {
			k.Violation("cli-vs-library", "CLI output differs from the library output", map[string]interface{}{"cli": first.Out, "library": lib.Out})
			return
		}
		k.Count("fresh_process_triples_equal", 1)
		k.Nontrivial("fresh", first.Exit, len(first.Out)/128)
	})
	// (a+) the whole CLI option set against the library with the same options: -i file / standard input,
	// -o file / standard output, -f, -l, -lm (markers name the -i path), -optimize, -s, -fc, -cc
	ctx.RunCases("cli-option-matrix", ctx.N(80, 1500), func(k *h.Case) {
		prof := profFull()
		g := spec.NewGen(k.R, prof)
		prog := g.FullProgram(1 + k.R.IntN(3))
		// scrambled layouts start with blank lines / comments now and then: line numbers in markers and
		// errors must be those of the file as given
		src := layoutOf(k, prog, 0.5).Src
		if k.R.IntN(3) == 0 {
			src = "\n\n  \n" + src
		}
		if k.R.IntN(4) != 0 {
			src += "\ntext TxtOpt { format(\"Hello there {PLAYER}, this is a fairly long line of text that has to be wrapped somewhere.\") }\n"
		}
		if k.R.IntN(2) == 0 {
			// percent signs are ordinary characters
			src += "\ntext TxtPct { \"100% sure, %d items, 50%% off %s$\" }\nraw `\nRawPct:\n\t.string \"%d%$\"\n`\n"
		}
		if k.R.IntN(6) == 0 {
			src += "\nscript ScrErr { break }\n" // an error whose line must match too
		}
		k.SetSource(src)
		dir := workDir(k)
		defer cleanWork(dir)
		o := optsOf(prog, k.R.IntN(2) == 0)
		o.LM = k.R.IntN(2) == 0
		o.FontID = []string{"", "", "1_latin_rse", "1_latin_frlg", "nope"}[k.R.IntN(5)]
		o.MaxLen = []int{0, 0, 80, 120, 33}[k.R.IntN(5)]
		useStdin, useOutFile := k.R.IntN(3) == 0, k.R.IntN(2) == 0
		if !useStdin {
			o.Path = cliInputPath(dir)
		}
		if k.R.IntN(3) == 0 {
			// switch values may contain '=' (only the first one separates key and value), and unused switches are harmless
			sw := map[string]string{"UNUSED_SWITCH": "a=b=c"}
			for kk, v := range o.Switches {
				sw[kk] = v
			}
			if k.R.IntN(2) == 0 {
				sw["GAME"] = "RUBY=1"
			}
			o.Switches = sw
		}
		var modes []string
		if k.R.IntN(4) == 0 {
			modes = append(modes, "default-config-paths")
		}
		if k.R.IntN(3) == 0 {
			modes = append(modes, "omit-default-flags") // -optimize and -lm are on unless switched off
		}
		if k.R.IntN(4) == 0 {
			modes = append(modes, "repeated-cc")
		}
		if !useStdin && k.R.IntN(4) == 0 {
			modes = append(modes, "odd-input-path")
			o.Path = cliOddInputPath
		}
		if k.R.IntN(8) == 0 && len(modes) == 0 {
			modes = append(modes, "empty-cc") // -cc "" switches AutoVar commands off
			o.Cfg = parser.CommandConfig{}
		}
		lib := h.Compile(src, o)
		if k.R.IntN(4) == 0 {
			modes = append(modes, "repeated-switch-keys")
		}
		cli := runCLIFull(dir, src, prog, o, useStdin, useOutFile, modes...)
		k.Count("evaluations", 2)
		if cli.Err != nil {
			k.C.Inconclusive("cannot run CLI: %v", cli.Err)
			return
		}
		for _, m := range modes {
			k.Count("cli_mode_"+m, 1)
		}
		desc := fmt.Sprintf("optimize=%v lm=%v f=%q l=%d stdin=%v outfile=%v %v", o.Optimize, o.LM, o.FontID, o.MaxLen, useStdin, useOutFile, modes)
		if lib.Panic != nil || cli.Exit > 1 {
			k.Violation("cli-crash", fmt.Sprintf("[%s] library panic %v / CLI exit %d: %s", desc, lib.Panic, cli.Exit, firstN(cli.Stderr, 200)), nil)
			return
		}
		if lib.OK() != (cli.Exit == 0) {
			k.Violation("cli-accept-differs", fmt.Sprintf("[%s] library: %q; CLI exit %d: %s", desc, lib.ErrString(), cli.Exit, firstN(cli.Stderr, 200)), nil)
			return
		}
		if lib.OK() && lib.Out != cli.Out {
			k.Violation("cli-output-differs", fmt.Sprintf("[%s] the CLI output differs from the library output for the same options", desc), map[string]interface{}{"library": lib.Out, "cli": cli.Out})
			return
		}
		if !lib.OK() && !strings.Contains(cli.Stderr, "PORYSCRIPT ERROR: "+lib.Err.Error()) {
			k.Violation("cli-error-differs", fmt.Sprintf("[%s] library error %q is not what the CLI reports: %s", desc, lib.Err.Error(), firstN(cli.Stderr, 300)), nil)
			return
		}
		k.Count("cli_option_cases_equal", 1)
		if useStdin {
			k.Count("cli_stdin_inputs", 1)
		}
		if useOutFile {
			k.Count("cli_output_files", 1)
		}
		k.Nontrivial("cliopt", o.Optimize, o.LM, o.FontID, o.MaxLen, useStdin, useOutFile, lib.OK())
	})
	// (a'') adversarial history: X compiled in this process right after Y (same words, other font /
	// other switches / other default length) must equal X compiled in a fresh process
	ctx.RunCases("adversarial-history", ctx.N(60, 1500), func(k *h.Case) {
		prof := profFull()
		g := spec.NewGen(k.R, prof)
		prog := g.FullProgram(1 + k.R.IntN(3))
		words := []string{"{UP_ARROW}", "{DOWN_ARROW}", "{LEFT_ARROW}", "{RIGHT_ARROW}", "{PLAYER}", "Hello", "there,", "trainer!", "{STR_VAR_1}", "WWWW", "iiii", "{PAUSE 20}"}
		var sb []string
		for i := 0; i < 30; i++ {
			sb = append(sb, words[k.R.IntN(len(words))])
		}
		text := strings.Join(sb, " ")
		fonts := []string{"1_latin_rse", "1_latin_frlg"}
		fx := k.R.IntN(2)
		mk := func(font string) string {
			return spec.Source(prog) + "\ntext TxtHistory { format(\"" + text + "\", \"" + font + "\") }\n"
		}
		srcX, srcY := mk(fonts[fx]), mk(fonts[1-fx])
		k.SetSource(srcX)
		ox := optsOf(prog, true)
		oy := ox
		oy.Switches = map[string]string{}
		for kk, v := range prog.Switches {
			oy.Switches[kk] = v + "x"
		}
		oy.MaxLen = 60
		dir := workDir(k)
		defer cleanWork(dir)
		fresh := runCLI(dir, srcX, prog, true, false)
		k.Count("evaluations", 3)
		if fresh.Err != nil {
			k.C.Inconclusive("cannot run CLI: %v", fresh.Err)
			return
		}
		c17Compile(srcY, oy)
		c17Compile(srcY, ox)
		after := h.Compile(srcX, ox)
		if after.OK() != (fresh.Exit == 0) {
			k.Violation("history-changes-acceptance", fmt.Sprintf("after compiling a sibling input in this process: %q; in a fresh process: exit %d %s", after.ErrString(), fresh.Exit, firstLineOf(fresh.Stderr)), nil)
			return
		}
		if after.OK() && after.Out != fresh.Out {
			k.Violation("history-changes-output", "the output of an input compiled after a sibling input (same words, other font/switches/length) differs from its output in a fresh process", map[string]interface{}{"fresh": fresh.Out, "after_history": after.Out, "sibling": srcY})
			return
		}
		if !after.OK() && after.Err != nil && !strings.Contains(fresh.Stderr, "PORYSCRIPT ERROR: "+after.Err.Error()) {
			k.Violation("history-changes-error", fmt.Sprintf("rejected in both, with different errors: after a sibling input %q; fresh process: %s", after.Err.Error(), firstLineOf(fresh.Stderr)), nil)
			return
		}
		k.Count("history_pairs_equal", 1)
		k.Nontrivial("history", fx, len(after.Out)/64)
	})
	// (a4) history of FAILED compilations: names used by programs that were rejected (in the parser, in the
	// emitter) must not influence a later, valid program that uses the same names differently
	ctx.RunCases("history-after-errors", ctx.N(60, 1500), func(k *h.Case) {
		prof := profFull()
		prof.WLabel = 10
		g := spec.NewGen(k.R, prof)
		prog := g.FullProgram(1 + k.R.IntN(3))
		lbl := g.Name("LblShared")
		var first *spec.Script
		for _, it := range prog.Items {
			if sc, ok := it.(*spec.Script); ok && first == nil {
				first = sc
			}
		}
		if first == nil {
			first = &spec.Script{ID: prog.NewID(), Name: g.Name("Scr"), Body: &spec.Block{ID: prog.NewID()}}
			prog.Items = append(prog.Items, first)
		}
		first.Body.Stmts = append([]spec.Stmt{&spec.Label{ID: prog.NewID(), Name: lbl}, &spec.CmdStmt{Cmd: g.Cmd()}}, first.Body.Stmts...)
		srcX := spec.Source(prog)
		k.SetSource(srcX)
		ox := optsOf(prog, k.R.IntN(2) == 0)
		dir := workDir(k)
		defer cleanWork(dir)
		fresh := runCLI(dir, srcX, prog, ox.Optimize, false)
		k.Count("evaluations", 1)
		if fresh.Err != nil {
			k.C.Inconclusive("cannot run CLI: %v", fresh.Err)
			return
		}
		// failing programs that use X's names in other roles
		scr := g.Name("ScrBad")
		bad := []string{
			// rejected by the emitter: a label equal to the script's own name; a text is named like X's label
			"text " + lbl + " { \"stale\" }\nmovement " + first.Name + "_Movement_0 { walk_up }\nscript " + scr + " { lock\n" + scr + ":\n end }\n",
			// rejected by the emitter: a label equal to a text label; X's script name is used as a text name
			"text " + first.Name + " { \"stale\" }\ntext TxtClash { \"x\" }\nscript " + scr + " { TxtClash:\n end }\n",
			// rejected by the parser half-way through: constants and texts already registered
			"const " + lbl + " = 5\nconst " + first.Name + " = 6\ntext " + lbl + " { \"stale\" }\nscript " + scr + " { msgbox(\"" + lbl + "\") if (flag(",
			// rejected by the parser: break outside, after hoisting texts named after X's script
			"script " + first.Name + " { msgbox(\"one\") msgbox(\"two\") }\nscript " + scr + " { break }\n",
		}
		for i, y := range bad {
			if k.R.IntN(4) == 0 {
				continue
			}
			r := h.Compile(y, ox)
			k.Count("evaluations", 1)
			if r.OK() {
				k.C.Note("history-after-errors: program %d unexpectedly compiled", i)
			} else {
				k.Count("failed_compilations_before", 1)
			}
		}
		after := h.Compile(srcX, ox)
		k.Count("evaluations", 1)
		if after.OK() != (fresh.Exit == 0) {
			k.Violation("failed-history-changes-acceptance", fmt.Sprintf("after failed compilations in this process: %q; in a fresh process: exit %d %s", after.ErrString(), fresh.Exit, firstLineOf(fresh.Stderr)), map[string]interface{}{"failed_before": bad})
			return
		}
		if after.OK() && after.Out != fresh.Out {
			k.Violation("failed-history-changes-output", "the output of a valid input compiled after failed compilations differs from its output in a fresh process", map[string]interface{}{"fresh": fresh.Out, "after": after.Out, "failed_before": bad})
			return
		}
		if !after.OK() && after.Err != nil && !strings.Contains(fresh.Stderr, "PORYSCRIPT ERROR: "+after.Err.Error()) {
			k.Violation("failed-history-changes-error", fmt.Sprintf("rejected in both, with different errors: after failed compilations %q; fresh process: %s", after.Err.Error(), firstLineOf(fresh.Stderr)), map[string]interface{}{"failed_before": bad})
			return
		}
		k.Count("after_error_pairs_equal", 1)
		k.Nontrivial("aftererr", after.OK(), len(after.Out)/64)
	})
	// (b0) an AutoVar command used with different numbers of arguments in several scripts, under a command config
	// with unusual positions (negative ones may mean "from the end" to a future compiler): whether and how a script
	// compiles must not depend on the scripts before it - in one file, and across compilations sharing the config
	ctx.RunCases("autovar-config-independence", ctx.N(120, 3000), func(k *h.Case) {
		pos := []int{-1, -2, 0, 1, 5}[k.R.IntN(5)]
		cfg := parser.CommandConfig{AutoVarCommands: map[string]parser.AutoVarCommand{"callfunc": {VarNameArgPosition: &pos}}}
		mk := func(name string, nargs int) string {
			args := []string{"F_" + name}
			for i := 1; i < nargs; i++ {
				args = append(args, fmt.Sprintf("VAR_%s_%d", name, i))
			}
			return "script " + name + " {\n  if (callfunc(" + strings.Join(args, ", ") + ") == 1) {\n    lock\n  }\n}\n"
		}
		a, b := mk("ScrFirst", 2+k.R.IntN(2)), mk("ScrSecond", 3+k.R.IntN(3))
		o := h.Opts{Optimize: k.R.IntN(2) == 0, Cfg: cfg}
		k.SetSource(a + b)
		posFresh := pos
		oFresh := o
		oFresh.Cfg = parser.CommandConfig{AutoVarCommands: map[string]parser.AutoVarCommand{"callfunc": {VarNameArgPosition: &posFresh}}}
		alone := c17Compile(b, oFresh) // reference: a config object of its own
		both := h.Compile(a+b, o)
		after := c17Compile(b, o) // the config object that was used for the file containing the first script
		k.Count("evaluations", 3)
		if after != alone {
			k.Violation("config-history", fmt.Sprintf("[position %d] the second script compiled alone before and after another compilation with the same command config: %q vs %q; outputs equal: %v", pos, alone.Err, after.Err, alone.Out == after.Out), map[string]interface{}{"first": alone.Out, "now": after.Out})
			return
		}
		if both.OK() && alone.Err == "" {
			i := strings.Index(both.Out, "ScrSecond::")
			if i < 0 || strings.TrimRight(both.Out[i:], "\n") != strings.TrimRight(alone.Out, "\n") {
				k.Violation("autovar-dependence", fmt.Sprintf("[position %d] the code of the second script differs when the first one precedes it in the file", pos), map[string]interface{}{"alone": alone.Out, "in_file": both.Out})
				return
			}
			k.Count("autovar_config_scripts_equal", 1)
		} else if both.OK() != (alone.Err == "") && !(alone.Err == "" && !both.OK()) {
			k.Violation("autovar-dependence", fmt.Sprintf("[position %d] the second script is rejected on its own (%s) but the file with both scripts compiles", pos, alone.Err), nil)
			return
		}
		k.Nontrivial("avcfg", pos, alone.Err == "", both.OK())
	})
	// (b) independence from the other top-level statements
	ctx.RunCases("independence", ctx.N(1500, 100000), func(k *h.Case) {
		prof := profFull()
		prof.PTextArg, prof.PMovesArg = 0.3, 0.15
		g := spec.NewGen(k.R, prof)
		prog := g.FullProgram(2 + k.R.IntN(5))
		// sometimes a label statement in one script is spelled like a sub-label of ANOTHER script
		// (legal: only a script's own generated labels and text labels are reserved)
		var scs []*spec.Script
		for _, it := range prog.Items {
			if sc, ok := it.(*spec.Script); ok {
				scs = append(scs, sc)
			}
		}
		if len(scs) >= 2 && k.R.IntN(3) == 0 {
			a, b := k.R.IntN(len(scs)), k.R.IntN(len(scs))
			if a != b {
				lbl := &spec.Label{ID: prog.NewID(), Name: fmt.Sprintf("%s_%d", scs[a].Name, 1+k.R.IntN(6))}
				scs[b].Body.Stmts = append([]spec.Stmt{lbl}, scs[b].Body.Stmts...)
				k.Count("files_with_label_spelled_like_another_scripts_sublabel", 1)
			}
		}
		c17Independence(k, prog, k.R.IntN(2) == 0)
	})
	// (b') the same with MANY top-level statements of one kind in front of and behind ordinary ones: whatever
	// the compiler counts or caches per file (groups, labels, fonts, chunks, hoisted values) must not change what a
	// later statement compiles to - each of these statements compiles alone, and thresholds only show in big files
	ctx.RunCases("many-statements", ctx.N(36, 600), func(k *h.Case) {
		prof := profFull()
		g := spec.NewGen(k.R, prof)
		prog := g.FullProgram(1 + k.R.IntN(3))
		fp := g.P // (with the generator's defaults filled in)
		fp.MaxDepth, fp.MaxLen, fp.MaxLeaves, fp.NoRedundantPar = 2, 2, 4, false
		fp.PTextArg, fp.PMovesArg, fp.PAuto, fp.PFormat, fp.WPory, fp.PFallback = 0.1, 0.05, 0.1, 0.1, 0, 1
		kind := k.Index % 6
		switch kind {
		case 0: // compound conditions with groups
			fp.WIf, fp.WWhile, fp.WDoWhile, fp.WSwitch = 60, 15, 10, 0
		case 1: // switches
			fp.WSwitch, fp.MaxCases = 60, 6
		case 2: // inline texts, format() with and without parameters
			fp.PTextArg, fp.PFormat, fp.PTyped, fp.WCmd = 0.8, 0.6, 0.2, 80
		case 3: // AutoVar commands
			fp.PAuto, fp.PRepeatAuto = 0.8, 0.3
		case 4: // inline movements and poryswitch statements
			fp.PMovesArg, fp.WPory, fp.WCmd = 0.6, 20, 60
		default:
			fp.PTextArg, fp.PMovesArg, fp.PAuto, fp.PFormat, fp.WPory = 0.3, 0.2, 0.3, 0.3, 6
		}
		n := 65 + k.R.IntN(140)
		if !ctx.Quick() && k.Index%8 == 0 {
			n = 257 + k.R.IntN(900)
		}
		g.P = fp
		var filler []spec.Item
		for i := 0; i < n; i++ {
			switch {
			case kind == 2 && i%4 == 0, kind == 5 && i%7 == 0:
				filler = append(filler, g.TextStmt())
			case kind == 4 && i%4 == 0, kind == 5 && i%7 == 1:
				filler = append(filler, g.MovementStmt())
			case kind == 5 && i%7 == 2:
				filler = append(filler, g.MartStmt())
			default:
				filler = append(filler, g.Script())
			}
		}
		// most of the filler in front, some behind
		cut := len(filler) - k.R.IntN(8)
		prog.Items = append(append(append([]spec.Item{}, filler[:cut]...), prog.Items...), filler[cut:]...)
		k.Count("big_files", 1)
		k.Count("big_file_statements", int64(len(prog.Items)))
		if c17Independence(k, prog, k.R.IntN(2) == 0) {
			k.Count("big_files_decomposed", 1)
			k.Count(fmt.Sprintf("big_files_decomposed_kind_%d", kind), 1)
		}
	})
	// (c) shared-state probe under the race detector (thorough tier; needs the -race build made by ./run)
	if bin := os.Getenv("PVMON_RACE_BIN"); bin != "" {
		ctx.RunCases("race-probe", 1, func(k *h.Case) {
			logBase := filepath.Join(h.VerifDir, ".work", "C17", fmt.Sprintf("race-%d", os.Getpid()))
			os.MkdirAll(filepath.Dir(logBase), 0o755)
			cmd := exec.Command(bin, "worker", "c17race", fmt.Sprint(ctx.Seed), "400")
			cmd.Env = append(os.Environ(), "GORACE=halt_on_error=0 log_path="+logBase)
			var so, se bytes.Buffer
			cmd.Stdout, cmd.Stderr = &so, &se
			err := cmd.Run()
			var rep struct {
				Compilations int
				Mismatches   []string
			}
			if json.Unmarshal(so.Bytes(), &rep) != nil {
				ctx.Inconclusive("race probe produced no report (err=%v, stderr=%s)", err, firstN(se.String(), 300))
				return
			}
			k.Count("race_probe_compilations", int64(rep.Compilations))
			k.Count("evaluations", int64(rep.Compilations))
			races := 0
			logs, _ := filepath.Glob(logBase + "*")
			for _, lf := range logs {
				b, _ := os.ReadFile(lf)
				races += strings.Count(string(b), "WARNING: DATA RACE")
				if strings.Contains(string(b), "WARNING: DATA RACE") {
					ctx.Note("race report: %s", firstN(string(b), 1500))
				}
				os.Remove(lf)
			}
			k.Count("race_reports", int64(races))
			if len(rep.Mismatches) > 0 {
				k.Violation("concurrent-differs", fmt.Sprintf("compiling from 16 goroutines gave results that differ from the sequential ones (%d mismatches): %s", len(rep.Mismatches), rep.Mismatches[0]), nil)
				return
			}
			k.Nontrivial("race-probe", rep.Compilations)
		})
	}
	return ctx.Finish(
		"(a) the same input+options (valid files with every construct; invalid: unknown font id with the two-font config, unknown default font, a deleted token, missing switches; named format() parameters) compiled 20x (200x for map-order-sensitive classes) in one process, interleaved with other inputs and with 15 other workers compiling concurrently, and 3x in fresh CLI processes: output bytes and error value (message and positions) identical. (b) every top-level statement compiled alone emits exactly the blocks it contributes to the whole file, after replacing hoisted text/movement label names by a hash of the content they denote; the whole file emits nothing else; the same for files of 65-200 (thorough: up to 1150) statements of one kind around ordinary ones (sub-check many-statements: a file rejected although each statement compiles alone is a violation). (c, thorough) the same workload from 16 goroutines under the race detector: reports are counted. distinct = (class, size classes)",
		ctx.N(300, 3000),
		[]string{"blocks = blank-line separated runs of output lines; chunk order inside a script depends only on that script"})
}

// c17RaceWorker runs in the -race build: compiles a fixed set of inputs
// sequentially, then from 16 goroutines, and reports differences.
func c17RaceWorker(args []string) int {
	var seed int64 = 1
	n := 200
	if len(args) > 0 {
		fmt.Sscan(args[0], &seed)
	}
	if len(args) > 1 {
		fmt.Sscan(args[1], &n)
	}
	ctx := h.NewCtx("C17", "race", seed)
	type in struct {
		src string
		o   h.Opts
	}
	var ins []in
	var mu sync.Mutex
	ctx.Workers = 1
	ctx.RunCases("race-inputs", n, func(k *h.Case) {
		s, o, _ := c17Input(k, k.Index)
		mu.Lock()
		ins = append(ins, in{s, o})
		mu.Unlock()
	})
	sort.Slice(ins, func(i, j int) bool { return ins[i].src < ins[j].src })
	base := make([]c17Result, len(ins))
	for i, x := range ins {
		base[i] = c17Compile(x.src, x.o)
	}
	var mism []string
	var wg sync.WaitGroup
	total := len(ins)
	for w := 0; w < 16; w++ {
		wg.Add(1)
		go func(w int) {
			defer wg.Done()
			for rep := 0; rep < 3; rep++ {
				for i := range ins {
					j := (i*7 + w*13 + rep) % len(ins)
					r := c17Compile(ins[j].src, ins[j].o)
					if r != base[j] {
						mu.Lock()
						mism = append(mism, fmt.Sprintf("input %d: %q vs %q", j, firstN(r.Err, 100), firstN(base[j].Err, 100)))
						mu.Unlock()
					}
				}
			}
		}(w)
	}
	wg.Wait()
	total += 16 * 3 * len(ins)
	b, _ := json.Marshal(map[string]interface{}{"Compilations": total, "Mismatches": mism})
	fmt.Println(string(b))
	return 0
}
