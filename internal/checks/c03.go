package checks

import (
	"fmt"
	"strconv"
	"strings"

	"verif.local/pvmon/internal/asm"
	"verif.local/pvmon/internal/h"
	"verif.local/pvmon/internal/ref"
	"verif.local/pvmon/internal/spec"
)

func init() { Registry["C03"] = runC03 }

// entry kinds of the enumerated case lists
const (
	ekCaseEmpty = iota
	ekCaseBody
	ekCaseBodyBreakEnd
	ekCaseBreakMiddle
	ekCaseBreakInIf
	ekDefaultEmpty
	ekDefaultBody
	ekDefaultBodyBreak
	ekDefaultBreakInIf
	ekCount
)

var ekNames = []string{"case-empty", "case-body", "case-body-break", "case-break-middle", "case-break-in-if", "default-empty", "default-body", "default-body-break", "default-break-in-if"}

// enumCaseLists lists every case list of the given length with at most one default.
func enumCaseLists(n int) [][]int {
	var out [][]int
	var rec func(cur []int, hasDef bool)
	rec = func(cur []int, hasDef bool) {
		if len(cur) == n {
			out = append(out, append([]int{}, cur...))
			return
		}
		for e := 0; e < ekCount; e++ {
			isDef := e >= ekDefaultEmpty
			if isDef && hasDef {
				continue
			}
			rec(append(cur, e), hasDef || isDef)
		}
	}
	rec(nil, false)
	return out
}

// buildSwitch makes a switch from entry kinds. Case values are 1..n.
func buildSwitch(g *spec.Gen, kinds []int) *spec.Switch {
	sw := &spec.Switch{ID: g.Prog.NewID(), Operand: []string{g.Name("VAR_SW")}}
	for i, e := range kinds {
		c := &spec.Case{ID: g.Prog.NewID(), Body: &spec.Block{ID: g.Prog.NewID()}}
		if e >= ekDefaultEmpty {
			c.Default = true
		} else {
			c.Value = []string{strconv.Itoa(i + 1)}
		}
		cmd := func() spec.Stmt { return marker(g, "c") }
		brk := func() spec.Stmt { return &spec.Break{ID: g.Prog.NewID()} }
		switch e {
		case ekCaseBody, ekDefaultBody:
			c.Body.Stmts = []spec.Stmt{cmd()}
		case ekCaseBodyBreakEnd, ekDefaultBodyBreak:
			c.Body.Stmts = []spec.Stmt{cmd(), brk()}
		case ekCaseBreakMiddle:
			c.Body.Stmts = []spec.Stmt{cmd(), brk(), cmd()}
		case ekCaseBreakInIf, ekDefaultBreakInIf:
			fl := &spec.Leaf{ID: g.Prog.NewID(), Kind: spec.LeafFlag, Operand: []string{g.Name("FLAG_B")}}
			c.Body.Stmts = []spec.Stmt{cmd(), &spec.If{ID: g.Prog.NewID(), Arms: []*spec.Arm{{Cond: fl, Body: &spec.Block{ID: g.Prog.NewID(), Stmts: []spec.Stmt{brk()}}}}}, cmd()}
		}
		sw.Cases = append(sw.Cases, c)
	}
	return sw
}

const nSwitchContexts = 8

// inContext embeds a switch into one of the contexts; returns the script body
// and the vars that must be pinned to enter it.
func inContext(g *spec.Gen, sw *spec.Switch, ctxKind int) (*spec.Block, map[string]int) {
	blk := func(ss ...spec.Stmt) *spec.Block { return &spec.Block{ID: g.Prog.NewID(), Stmts: ss} }
	flag := func(p string) *spec.Leaf {
		return &spec.Leaf{ID: g.Prog.NewID(), Kind: spec.LeafFlag, Operand: []string{g.Name(p)}}
	}
	pins := map[string]int{}
	switch ctxKind % nSwitchContexts {
	case 0:
		return blk(sw), pins
	case 1:
		return blk(marker(g, "before"), sw, marker(g, "after")), pins
	case 2:
		return blk(&spec.While{ID: g.Prog.NewID(), Cond: flag("FLAG_W"), Body: blk(sw, marker(g, "tail"))}, marker(g, "after")), pins
	case 3:
		return blk(&spec.DoWhile{ID: g.Prog.NewID(), Body: blk(marker(g, "head"), sw), Cond: flag("FLAG_D")}, marker(g, "after")), pins
	case 4:
		o := g.Name("VAR_OUT")
		outer := &spec.Switch{ID: g.Prog.NewID(), Operand: []string{o}, Cases: []*spec.Case{
			{ID: g.Prog.NewID(), Value: []string{"1"}, Body: blk(sw, marker(g, "inner_after"))},
			{ID: g.Prog.NewID(), Default: true, Body: blk(marker(g, "other"))},
		}}
		pins[o] = 1
		return blk(outer, marker(g, "after")), pins
	case 5:
		return blk(&spec.While{ID: g.Prog.NewID(), Body: blk(sw, &spec.If{ID: g.Prog.NewID(), Arms: []*spec.Arm{{Cond: flag("FLAG_Q"), Body: blk(&spec.Break{ID: g.Prog.NewID()})}}}, marker(g, "again"))}), pins
	case 6:
		// the switch is the single statement of the selected colon-form case of a poryswitch
		g.Prog.Switches["CTXKEY"] = "PICK"
		ps := &spec.PorySwitch{ID: g.Prog.NewID(), Key: "CTXKEY", Cases: []*spec.PSCase{
			{Name: "OTHER", Brace: true, Body: blk(marker(g, "unselected"))},
			{Name: "PICK", Body: blk(sw)},
			{Name: "_", Body: blk(marker(g, "fallback"))}}}
		return blk(marker(g, "before"), ps, marker(g, "after")), pins
	default:
		// the switch is the first statement of the `_` brace-form case of a poryswitch nested in another one
		g.Prog.Switches["CTXKEY"] = "NOSUCH"
		g.Prog.Switches["CTXKEY2"] = "B"
		inner := &spec.PorySwitch{ID: g.Prog.NewID(), Key: "CTXKEY", Cases: []*spec.PSCase{
			{Name: "PICK", Body: blk(marker(g, "unselected"))},
			{Name: "_", Brace: true, Body: blk(sw, marker(g, "inner_after"))}}}
		outer := &spec.PorySwitch{ID: g.Prog.NewID(), Key: "CTXKEY2", Cases: []*spec.PSCase{
			{Name: "A", Brace: true, Body: blk()},
			{Name: "B", Brace: true, Body: blk(inner)}}}
		return blk(outer, marker(g, "after")), pins
	}
}

// switchesIn collects the switches of a block (recursively).
func switchesIn(b *spec.Block, out *[]*spec.Switch) {
	if b == nil {
		return
	}
	for _, st := range b.Stmts {
		switch x := st.(type) {
		case *spec.If:
			for _, a := range x.Arms {
				switchesIn(a.Body, out)
			}
			switchesIn(x.Else, out)
		case *spec.While:
			switchesIn(x.Body, out)
		case *spec.DoWhile:
			switchesIn(x.Body, out)
		case *spec.Switch:
			*out = append(*out, x)
			for _, c := range x.Cases {
				switchesIn(c.Body, out)
			}
		}
	}
}

func caseListSig(sw *spec.Switch) string {
	var sb strings.Builder
	for _, c := range sw.Cases {
		if c.Default {
			sb.WriteString("d")
		} else {
			sb.WriteString("k")
		}
		sb.WriteString(shapeOfBlock(c.Body))
	}
	return sb.String()
}

// checkSwitchProgram runs the first script for every value of every switch
// operand in it (each case value and one value matching nothing).
func checkSwitchProgram(k *h.Case, prog *spec.Program, cands []int, pins map[string]int, nBase int) bool {
	return checkSwitchProgramX(k, prog, cands, pins, nBase, false)
}

// checkSwitchProgramX: with full=true the traces are compared with full
// command texts and condition tests, and AutoVar operands are driven too.
func checkSwitchProgramX(k *h.Case, prog *spec.Program, cands []int, pins map[string]int, nBase int, full bool) bool {
	pr := layoutOf(k, prog, 0.15)
	k.SetSource(pr.Src)
	src := prog
	if len(prog.Switches) > 0 {
		// poryswitch contexts: the reference runs the program with the selected cases substituted by hand
		rp, err := spec.Resolve(prog, prog.Switches)
		if err != nil {
			k.C.Inconclusive("the switch context does not resolve: %v", err)
			return false
		}
		prog = rp
	}
	sc := scriptsOf(prog)[0]
	var sws []*spec.Switch
	switchesIn(sc.Body, &sws)
	for _, opt := range []bool{true, false} {
		res := h.Compile(pr.Src, optsOf(src, opt))
		k.Count("evaluations", 1)
		if !res.OK() {
			k.Count("rejected", 1)
			k.Count("rejected: "+rejectFamily(res.ErrString()), 1)
			rejectedValid(k, prog, res, true)
			return false
		}
		k.Count("accepted", 1)
		f := asm.Parse(res.Out)
		sec, err := f.SectionOf(sc.Entry, boundaryOf(prog, f))
		if err != nil {
			k.Violation("entry-label", err.Error(), map[string]interface{}{"output": res.Out})
			return false
		}
		in := ref.New(sc.Body, prog.AutoVars)
		if full {
			in.Render = buildLabelModel(prog).renderCmd
		}
		vm := &asm.VM{F: f, Sec: sec, UserTargets: userTargetsOf(prog)}
		for _, sw := range sws {
			if sw.Auto != nil && !full {
				continue
			}
			name := strings.Join(sw.Operand, " ")
			if sw.Auto != nil {
				name = ref.AutoVarName(sw.Auto, prog.AutoVars)
			}
			vals := []int{777777}
			for _, c := range sw.Cases {
				if !c.Default {
					vals = append(vals, spec.ValueInt(strings.Join(c.Value, " ")))
				}
			}
			for _, v := range vals {
				for b := 0; b < nBase; b++ {
					st := &ref.OverrideState{Base: &ref.HashState{Seed: h.Hash64(k.C.Seed, k.Sub, k.Index, b), Cands: cands}, Vars: map[string]int{name: v}}
					for pn, pv := range pins {
						st.Vars[pn] = pv
					}
					rt, vt := in.Run(st), vm.Run(st)
					k.Count("vm_runs", 1)
					a, bb := rt.Cmds(), vt.Cmds()
					if full {
						a, bb = normFull(rt), normFull(vt)
					}
					if len(vt.Problems) > 0 || !eqStrings(a, bb) {
						msg := fmt.Sprintf("[optimize=%v] switch on %s = %d (case list %s): ", opt, name, v, caseListSig(sw))
						if len(vt.Problems) > 0 {
							msg += "VM problem: " + strings.Join(vt.Problems, "; ") + "\n"
						}
						msg += diffTraces(a, bb)
						k.Violation("", msg, map[string]interface{}{"output": res.Out})
						return false
					}
				}
			}
		}
	}
	for _, sw := range sws {
		k.Nontrivial(caseListSig(sw))
		k.Count("switches", 1)
		hasDef, trailingEmpty, sharedDef := false, false, false
		for i, c := range sw.Cases {
			if c.Default {
				hasDef = true
				if len(c.Body.Stmts) == 0 && i < len(sw.Cases)-1 {
					sharedDef = true
				}
			}
		}
		if n := len(sw.Cases); n > 0 && len(sw.Cases[n-1].Body.Stmts) == 0 {
			trailingEmpty = true
		}
		if hasDef {
			k.Count("switches_with_default", 1)
		}
		if trailingEmpty {
			k.Count("switches_with_trailing_empty", 1)
		}
		if sharedDef {
			k.Count("switches_with_bodyless_default_before_other_cases", 1)
		}
	}
	return true
}

func runC03(ctx *h.Ctx) int {
	// random switches in random surroundings (generic generator, switch-heavy)
	prof := spec.Profile{
		MaxDepth: 3, MaxLen: 3,
		WCmd: 30, WIf: 8, WWhile: 5, WInfWhile: 2, WDoWhile: 4, WBreak: 12, WContinue: 5, WSwitch: 30, WEnd: 2, WLabel: 2, WGoto: 2,
		MaxLeaves: 1, PEmptyBody: 0.05, AfterJump: 0.4, PElse: 0.4, MaxElif: 1, MaxCases: 8, PDefault: 0.6, PEmptyCase: 0.4,
		NoRedundantPar: true, MultiTokenCases: true,
	}
	ctx.RunCases("random-switches", ctx.N(4000, 150000), func(k *h.Case) {
		g := spec.NewGen(k.R, prof)
		g.Prog.Items = append(g.Prog.Items, g.Script())
		if checkSwitchProgram(k, g.Prog, g.Cands(), nil, 3) {
			k.Sample("random", spec.Source(g.Prog))
		}
	})
	// complete enumeration of case lists x contexts
	maxLen := 3
	if !ctx.Quick() {
		maxLen = 5
	}
	var lists [][]int
	for n := 1; n <= maxLen; n++ {
		lists = append(lists, enumCaseLists(n)...)
	}
	ctx.RunCases("all-case-lists", len(lists)*nSwitchContexts, func(k *h.Case) {
		kinds := lists[k.Index/nSwitchContexts]
		cx := k.Index % nSwitchContexts
		g := spec.NewGen(k.R, spec.Profile{})
		sw := buildSwitch(g, kinds)
		body, pins := inContext(g, sw, cx)
		g.Prog.Items = append(g.Prog.Items, &spec.Script{ID: g.Prog.NewID(), Name: g.Name("Scr"), Body: body})
		if checkSwitchProgram(k, g.Prog, []int{0, 1, 2}, pins, 3) {
			k.Count(fmt.Sprintf("context_%d", cx), 1)
			for _, e := range kinds {
				k.Count("entry:"+ekNames[e], 1)
			}
			k.Sample(fmt.Sprintf("enumerated-ctx%d", cx), spec.Source(g.Prog))
		}
	})
	// several scripts (and inline map scripts) with the same kind of switch in one file: whatever the emitter keeps
	// per switch must not carry over from one script to the next
	ctx.RunCases("switches-in-several-scripts", ctx.N(1500, 60000), func(k *h.Case) {
		g := spec.NewGen(k.R, spec.Profile{})
		cx := k.R.IntN(nSwitchContexts)
		n := 2 + k.R.IntN(2)
		var kindsAll [][]int
		for i := 0; i < n; i++ {
			kinds := lists[k.R.IntN(len(lists))]
			if i > 0 && k.R.IntN(2) == 0 {
				kinds = kindsAll[0]
			}
			kindsAll = append(kindsAll, kinds)
			sw := buildSwitch(g, kinds)
			body, _ := inContext(g, sw, cx)
			if i == n-1 && k.R.IntN(3) == 0 {
				m := &spec.MapScripts{ID: g.Prog.NewID(), Name: g.Name("Map"), Entries: []*spec.MSEntry{{ID: g.Prog.NewID(), Type: "MAP_SCRIPT_ON_LOAD", Kind: 1, Body: body}}}
				g.Prog.Items = append(g.Prog.Items, m)
			} else {
				g.Prog.Items = append(g.Prog.Items, &spec.Script{ID: g.Prog.NewID(), Name: g.Name("Scr"), Body: body})
			}
		}
		prog := g.Prog
		src := layoutOf(k, prog, 0.15).Src
		k.SetSource(src)
		for _, opt := range []bool{true, false} {
			res := h.Compile(src, optsOf(prog, opt))
			k.Count("evaluations", 1)
			if !res.OK() {
				k.Count("rejected", 1)
				rejectedValid(k, prog, res, true)
				return
			}
			k.Count("accepted", 1)
			rp := prog
			if len(prog.Switches) > 0 {
				var err error
				if rp, err = spec.Resolve(prog, prog.Switches); err != nil {
					k.C.Inconclusive("the switch context does not resolve: %v", err)
					return
				}
			}
			if !vmCheck(k, rp, res.Out, vmCheckOpts{NStates: 14, Cands: []int{0, 1, 2, 3, 4, 5, 6}, Orig: prog, Optimize: opt}, fmt.Sprintf("optimize=%v", opt)) {
				return
			}
		}
		k.Count("files_with_several_switch_scripts", 1)
		k.Nontrivial("multi", cx, fmt.Sprint(kindsAll))
	})
	ctx.Exhaustive("case lists", int64(len(lists)), fmt.Sprintf("every list of 1..%d entries over {case empty, case body, body+break, break in the middle, break inside nested if, default empty, default body} with at most one default, each in %d contexts (alone, between commands, in while, in do-while, inside an outer switch case, in a condition-less while, as the colon-form case of a poryswitch, in the `_` case of a nested poryswitch)", maxLen, nSwitchContexts))
	rejectGuard(ctx, 0.05)
	return ctx.Finish(
		"switch statements: random case lists (<=8 entries, default anywhere, empty/non-empty bodies, break anywhere, nested) inside random scripts, plus the complete enumeration of small case lists in 8 contexts; each run for every case value and one value matching nothing, under 3 base states; command trace and terminal compared with the reference (first matching case, else default wherever written; body-less entry shares the next non-empty body; trailing body-less entries do nothing; no fall-through; break leaves the switch). distinct = distinct case-list signature",
		ctx.N(200, 2000),
		[]string{"case values are mapped to integers injectively (numeric literals by value, symbols by hash)"})
}
