package checks

import (
	"fmt"
	"path/filepath"
	"strings"

	"verif.local/pvmon/internal/asm"
	"verif.local/pvmon/internal/h"
	"verif.local/pvmon/internal/spec"
)

func init() { Registry["C16"] = runC16 }

// c16Index holds everything needed to map an output line back to the source
// construct it renders.
type c16Index struct {
	pr        *spec.Printed
	cmds      map[string]int   // command name -> node id
	multi     map[string][]int // non-unique commands (goto X, end, return): text -> node ids
	labels    map[string]int
	flagLeaf  map[string]int // operand -> leaf id
	varLeaf   map[string]int
	trLeaf    map[string]int
	autoVar   map[string]int // result var -> AutoVar command id
	switches  map[string]int // operand -> switch id (operand range stored at -id)
	swNode    map[int]*spec.Switch
	textItem  map[string]int   // label -> id of the text statement / hoisted TextVal
	moveItem  map[string][]int // label -> [range id, then one id per expanded step]
	moveRange map[string]int
	martItem  map[string][]int
	itemText  map[string][]string // label -> rendered text of each mart item / movement step, by position
	martRange map[string]int
	mapItem   map[string]*spec.MapScripts
	expand    map[string][]string
}

// expandToks renders tokens with constant uses ("$NAME") replaced by their expansion.
func expandToks(toks []string, expand map[string][]string) string {
	var out []string
	for _, t := range toks {
		if strings.HasPrefix(t, "$") {
			if e, ok := expand[t[1:]]; ok {
				out = append(out, e...)
				continue
			}
		}
		out = append(out, t)
	}
	return strings.Join(out, " ")
}

func buildC16Index(rp *spec.Program, pr *spec.Printed, expand map[string][]string) *c16Index {
	ix := &c16Index{pr: pr, expand: expand, multi: map[string][]int{}, cmds: map[string]int{}, labels: map[string]int{}, flagLeaf: map[string]int{}, varLeaf: map[string]int{}, trLeaf: map[string]int{},
		autoVar: map[string]int{}, switches: map[string]int{}, swNode: map[int]*spec.Switch{}, textItem: map[string]int{}, moveItem: map[string][]int{}, moveRange: map[string]int{},
		itemText: map[string][]string{}, martItem: map[string][]int{}, martRange: map[string]int{}, mapItem: map[string]*spec.MapScripts{}}
	var cond func(c spec.Cond)
	cond = func(c spec.Cond) {
		switch x := c.(type) {
		case *spec.And:
			for _, k := range x.Xs {
				cond(k)
			}
		case *spec.Or:
			for _, k := range x.Xs {
				cond(k)
			}
		case *spec.Not:
			cond(x.X)
		case *spec.Paren:
			cond(x.X)
		case *spec.Leaf:
			op := expandToks(x.Operand, expand)
			switch x.Kind {
			case spec.LeafFlag:
				ix.flagLeaf[op] = -x.ID
			case spec.LeafVar:
				ix.varLeaf[op] = -x.ID
			case spec.LeafDefeated:
				ix.trLeaf[op] = -x.ID
			case spec.LeafAuto:
				ix.autoVar[autoVarNameOf(x.Auto, rp)] = x.Auto.ID
			}
		}
	}
	var blk func(b *spec.Block)
	blk = func(b *spec.Block) {
		if b == nil {
			return
		}
		for _, st := range b.Stmts {
			switch x := st.(type) {
			case *spec.Label:
				ix.labels[x.Name] = x.ID
			case *spec.If:
				for _, a := range x.Arms {
					cond(a.Cond)
					blk(a.Body)
				}
				blk(x.Else)
			case *spec.While:
				if x.Cond != nil {
					cond(x.Cond)
				}
				blk(x.Body)
			case *spec.DoWhile:
				blk(x.Body)
				cond(x.Cond)
			case *spec.Switch:
				if x.Auto != nil {
					ix.autoVar[autoVarNameOf(x.Auto, rp)] = x.Auto.ID
					ix.switches[autoVarNameOf(x.Auto, rp)] = x.ID
				} else {
					ix.switches[expandToks(x.Operand, expand)] = x.ID
				}
				ix.swNode[x.ID] = x
				for _, c := range x.Cases {
					blk(c.Body)
				}
			}
		}
	}
	elems := func(es []*spec.ListElem) []int {
		var out []int
		for _, e := range es {
			if e.Name == "," {
				continue
			}
			n := len(expandSteps([]*spec.ListElem{e}))
			for i := 0; i < n; i++ {
				out = append(out, e.ID)
			}
		}
		return out
	}
	texts := func(es []*spec.ListElem) []string {
		var out []string
		for _, e := range es {
			if e.Name == "," {
				continue
			}
			n := len(expandSteps([]*spec.ListElem{e}))
			for i := 0; i < n; i++ {
				out = append(out, expandToks([]string{e.Name}, expand))
			}
		}
		return out
	}
	lm := buildLabelModel(rp)
	for _, s := range scriptsOf(rp) {
		blk(s.Body)
		allCmds(s.Body, func(c *spec.Cmd) {
			if c.Name == "goto" || c.Name == "end" || c.Name == "return" {
				key := c.Name
				if len(c.Args) == 1 {
					key += " " + strings.Join(c.Args[0].Toks, " ")
				}
				ix.multi[key] = append(ix.multi[key], c.ID)
			} else {
				ix.cmds[c.Name] = c.ID
			}
			for _, a := range c.Args {
				if a.Moves != nil {
					if l, ok := lm.MovesLabel[a]; ok {
						if _, seen := ix.moveItem[l]; !seen {
							ix.moveItem[l] = elems(a.Moves)
							ix.itemText[l] = texts(a.Moves)
							ix.moveRange[l] = c.ID
						}
					}
				}
			}
		})
	}
	for _, t := range lm.Texts {
		ix.textItem[t.Label] = t.First.ID
	}
	for _, it := range rp.Items {
		switch x := it.(type) {
		case *spec.TextItem:
			ix.textItem[x.Name] = x.ID
		case *spec.MovementItem:
			ix.moveItem[x.Name] = elems(x.Steps)
			ix.itemText[x.Name] = texts(x.Steps)
			ix.moveRange[x.Name] = x.ID
		case *spec.MartItem:
			ix.martItem[x.Name] = elems(x.Items)
			ix.itemText[x.Name] = texts(x.Items)
			ix.martRange[x.Name] = x.ID
		case *spec.MapScripts:
			ix.mapItem[x.Name] = x
		}
	}
	return ix
}

// c16Consts turns some flag/var/defeated operands, switch operands and case values into uses of
// constants (defined at the top of the file, one or several tokens each), so that markers in front of
// expanded operands are exercised. Returns the expansions.
func c16Consts(k *h.Case, g *spec.Gen, prog *spec.Program) map[string][]string {
	r := k.R
	expand := map[string][]string{}
	var defs []spec.Item
	mk := func(toks []string) []string {
		if len(toks) == 0 || r.IntN(3) != 0 {
			return toks
		}
		for _, t := range toks {
			if strings.HasPrefix(t, "$") || t == "(" || t == ")" || t == "," {
				return toks
			}
		}
		name := g.Name([]string{"C16_", "ÉC16_"}[r.IntN(2)])
		val := append([]string{}, toks...)
		use := []string{"$" + name}
		if len(val) > 1 && r.IntN(2) == 0 {
			// only the first token comes from the constant
			val, use = val[:1], append([]string{"$" + name}, toks[1:]...)
		}
		expand[name] = val
		defs = append(defs, &spec.Const{ID: prog.NewID(), Name: name, Value: val})
		k.Count("constant_operands", 1)
		return use
	}
	var cond func(c spec.Cond)
	cond = func(c spec.Cond) {
		switch x := c.(type) {
		case *spec.And:
			for _, y := range x.Xs {
				cond(y)
			}
		case *spec.Or:
			for _, y := range x.Xs {
				cond(y)
			}
		case *spec.Not:
			cond(x.X)
		case *spec.Paren:
			cond(x.X)
		case *spec.Leaf:
			if x.Auto == nil {
				x.Operand = mk(x.Operand)
			}
		}
	}
	var blk func(b *spec.Block)
	blk = func(b *spec.Block) {
		if b == nil {
			return
		}
		for _, st := range b.Stmts {
			switch x := st.(type) {
			case *spec.If:
				for _, a := range x.Arms {
					cond(a.Cond)
					blk(a.Body)
				}
				blk(x.Else)
			case *spec.While:
				if x.Cond != nil {
					cond(x.Cond)
				}
				blk(x.Body)
			case *spec.DoWhile:
				blk(x.Body)
				cond(x.Cond)
			case *spec.Switch:
				if x.Auto == nil {
					x.Operand = mk(x.Operand)
				}
				for _, c := range x.Cases {
					if !c.Default {
						c.Value = mk(c.Value)
					}
					blk(c.Body)
				}
			case *spec.PorySwitch:
				for _, c := range x.Cases {
					blk(c.Body)
				}
			}
		}
	}
	for _, it := range prog.Items {
		switch x := it.(type) {
		case *spec.Script:
			blk(x.Body)
		case *spec.MapScripts:
			for _, e := range x.Entries {
				blk(e.Body)
				for _, row := range e.Rows {
					blk(row.Body)
				}
			}
		case *spec.MartItem:
			// mart items through constants, also constants of several tokens (one `.2byte` line each)
			for _, e := range x.Items {
				if e.PS == nil && e.Name != "ITEM_NONE" && e.Name != "," && r.IntN(3) == 0 {
					name := g.Name("C16ITEM_")
					val := []string{e.Name}
					if r.IntN(2) == 0 {
						val = []string{e.Name, "+", "1"}
					}
					expand[name] = val
					defs = append(defs, &spec.Const{ID: prog.NewID(), Name: name, Value: val})
					e.Name = "$" + name
					k.Count("constant_mart_items", 1)
				}
			}
		}
	}
	prog.Items = append(defs, prog.Items...)
	return expand
}

func autoVarNameOf(c *spec.Cmd, p *spec.Program) string {
	av := p.AutoVars[c.Name]
	if av.ArgPos >= 0 && av.ArgPos < len(c.Args) {
		return strings.Join(c.Args[av.ArgPos].Toks, " ")
	}
	return av.VarName
}

func runC16(ctx *h.Ctx) int {
	prof := profFull()
	prof.PFormat = 0.3            // format() calls whose parameters stand on later lines than the string
	prof.NoSharedResultVar = true // the monitor finds an AutoVar operand's source construct through its result var
	// string literals with line breaks INSIDE the quotes: every marker after them must still count lines right
	prof.TextPool = []string{"Hello", "Bye now", "A b c", "Prize!", "x", "two lines\n      of text", "trailing break\n", "\n  leading break", "three\nlines\r\n\tof text"}
	paths := []string{"src/test.pory", `C:\proj\data\map.pory`, "a b/ü.pory", "x.pory", `\\srv\share\f.pory`, "C:/Users/山田\u3000太郎/a.pory", "dir\u00a0with nbsp/b.pory", "zero\u200bwidth/\ue000private.pory", "tab\there.pory", `quo"te.pory`}
	ctx.RunCases("markers", ctx.N(4000, 200000), func(k *h.Case) {
		p := prof
		if k.Index%3 == 0 {
			p.PAuto, p.MaxLeaves = 0.5, 4
		}
		g := spec.NewGen(k.R, p)
		prog := g.FullProgram(1 + k.R.IntN(5))
		if k.Index%4 == 0 {
			prog.Items = append(prog.Items, g.RawStmt())
		}
		for _, it := range prog.Items {
			if r, ok := it.(*spec.Raw); ok && k.R.IntN(2) == 0 {
				r.CRLF = true
			}
		}
		var expand map[string][]string
		if k.Index%3 == 1 {
			expand = c16Consts(k, g, prog)
		}
		rp, rerr := spec.Resolve(prog, prog.Switches)
		pr := layoutOf(k, prog, 0.8)
		k.SetSource(pr.Src)
		path := paths[k.R.IntN(len(paths))]
		opt := k.R.IntN(2) == 0
		o := optsOf(prog, opt)
		plain := h.Compile(pr.Src, o)
		o.LM, o.Path = true, path
		marked := h.Compile(pr.Src, o)
		o.Path = ""
		nopath := h.Compile(pr.Src, o)
		k.Count("evaluations", 3)
		if !plain.OK() || rerr != nil {
			k.Count("rejected", 1)
			if !plain.OK() {
				rejectedValid(k, prog, plain, false)
			} else {
				acceptedUnmatched(k)
			}
			if marked.OK() != plain.OK() || nopath.OK() != plain.OK() {
				k.Violation("accept-differs", fmt.Sprintf("acceptance depends on line markers: plain %q, markers %q, markers without path %q", plain.ErrString(), marked.ErrString(), nopath.ErrString()), nil)
			}
			return
		}
		if !marked.OK() || !nopath.OK() {
			k.Violation("accept-differs", fmt.Sprintf("program compiles without markers but not with: %q / %q", marked.ErrString(), nopath.ErrString()), nil)
			return
		}
		k.Count("accepted", 1)
		det := map[string]interface{}{"with_markers": marked.Out, "path": path}
		// (d) no path: no markers at all
		if nopath.Out != plain.Out {
			k.Violation("markers-without-path", "with -lm but an empty input path the output differs from the -lm=false output", map[string]interface{}{"lm_nopath": nopath.Out, "plain": plain.Out})
			return
		}
		// (a) transparency
		f := asm.Parse(marked.Out)
		var kept []string
		nMarkers := 0
		for _, l := range strings.Split(marked.Out, "\n") {
			if asmMarker(l) {
				nMarkers++
				continue
			}
			kept = append(kept, l)
		}
		if strings.Join(kept, "\n") != plain.Out {
			k.Violation("not-transparent", "removing the marker lines from the -lm output does not give the -lm=false output", map[string]interface{}{"with_markers": marked.Out, "plain": plain.Out})
			return
		}
		k.Count("markers_seen", int64(nMarkers))
		// (b), (c)
		ix := buildC16Index(rp, pr, expand)
		wantFile := strings.ReplaceAll(path, `\`, `\\`)
		inRange := func(id int, n int) (bool, string) {
			a, b, ok := pr.LineRange(id)
			if !ok {
				k.Count("marker:construct-without-recorded-range", 1)
				k.C.Inconclusive("no source line range recorded for construct %d", id)
				return true, "?"
			}
			return n >= a && n <= b, fmt.Sprintf("%d..%d", a, b)
		}
		// raw statements are handled by position
		rawDone := map[int]bool{}
		for _, it := range rp.Items {
			r, ok := it.(*spec.Raw)
			if !ok {
				continue
			}
			tick, _ := pr.MarkLine(r.ID, "tick")
			li := -1
			for i, ln := range r.Lines {
				if strings.HasSuffix(ln, ":") {
					li = i
					break
				}
			}
			// with CR LF content every line but the last keeps its CR (the raw text is copied verbatim)
			want := func(i int) string {
				if r.CRLF && i < len(r.Lines)-1 {
					return r.Lines[i] + "\r"
				}
				return r.Lines[i]
			}
			var at = -1
			for j := range f.Lines {
				if f.Lines[j].Text == want(li) {
					at = j
				}
			}
			if at < 0 {
				k.Violation("raw-missing", fmt.Sprintf("raw line %q not found in the output", want(li)), det)
				return
			}
			for i := range r.Lines {
				mi := at - 1 + 2*(i-li)
				if mi < 0 || mi+1 >= len(f.Lines) || f.Lines[mi].Kind != asm.KMarker || f.Lines[mi+1].Text != want(i) {
					k.Violation("raw-shape", fmt.Sprintf("raw statement: expected a marker followed by raw line %d (%q) at output line %d", i, r.Lines[i], mi+1), det)
					return
				}
				if f.Lines[mi].MLine != tick+i {
					k.Violation("raw-line", fmt.Sprintf("raw line %q was written on source line %d, marker says %d", r.Lines[i], tick+i, f.Lines[mi].MLine), det)
					return
				}
				rawDone[mi] = true
				k.Count("marker:raw-line", 1)
				if r.CRLF {
					k.Count("marker:raw-line-crlf", 1)
				}
			}
		}
		var curLabel string
		var posInBlock, curSwitch int
		// classify attributes an output line to the source construct it renders (0: unknown), given the parsing state
		// (current label, position in its block, current switch) before that line; before = index of the line in front
		// of it (in front of its marker when it has one), n = line named by its marker (0: none)
		classify := func(nx *asm.Line, before int, n int) (int, string) {
			id, what := 0, ""
			switch nx.Kind {
			case asm.KLabel:
				switch {
				case ix.labels[nx.Label] != 0:
					id, what = ix.labels[nx.Label], "label"
				case ix.moveRange[nx.Label] != 0:
					id, what = ix.moveRange[nx.Label], "movement-header"
				case ix.martRange[nx.Label] != 0:
					id, what = ix.martRange[nx.Label], "mart-header"
				}
			case asm.KInstr:
				switch {
				case nx.IsData() && before >= 0 && f.Lines[before].Kind == asm.KLabel && ix.textItem[f.Lines[before].Label] != 0:
					id, what = ix.textItem[f.Lines[before].Label], "text"
				case nx.IsData() && ix.textItem[curLabel] != 0 && strings.HasPrefix(nx.Op, ".") && nx.Op != ".2byte" && nx.Op != ".byte" && nx.Op != ".4byte" && nx.Op != ".align":
					// a marker between the lines of one text block
					id, what = ix.textItem[curLabel], "text-continuation"
				case nx.Op == ".2byte" && ix.martItem[curLabel] != nil:
					// (by position, and only when the line is that item: otherwise the marker cannot be attributed)
					if posInBlock < len(ix.martItem[curLabel]) && normLine(nx.Args) == normLine(ix.itemText[curLabel][posInBlock]) {
						id, what = ix.martItem[curLabel][posInBlock], "mart-item"
					}
				case ix.moveItem[curLabel] != nil && ix.cmds[nx.Op] == 0:
					if posInBlock < len(ix.moveItem[curLabel]) && normLine(strings.TrimSpace(nx.Text)) == normLine(ix.itemText[curLabel][posInBlock]) {
						id, what = ix.moveItem[curLabel][posInBlock], "movement-step"
					}
				case nx.Op == "map_script":
					if m := ix.mapItem[curLabel]; m != nil {
						var direct, tables []*spec.MSEntry
						for _, e := range m.Entries {
							if e.Kind == 2 {
								tables = append(tables, e)
							} else {
								direct = append(direct, e)
							}
						}
						all := append(direct, tables...)
						if posInBlock < len(all) {
							id, what = all[posInBlock].ID, "map-script-entry"
						}
					}
				case nx.Op == "map_script_2":
					// table label = header target; find the table entry by label
					for _, m := range ix.mapItem {
						for _, e := range m.Entries {
							if e.Kind == 2 && m.Name+"_"+e.Type == curLabel && posInBlock < len(e.Rows) {
								id, what = e.Rows[posInBlock].ID, "table-row"
							}
						}
					}
				case nx.Op == "goto_if_set" || nx.Op == "goto_if_unset":
					fl, _ := asm.SplitLast(nx.Args)
					id, what = ix.flagLeaf[fl], "flag-operand"
				case nx.Op == "checktrainerflag":
					id, what = ix.trLeaf[nx.Args], "defeated-operand"
				case nx.Op == "compare" || nx.Op == "compare_var_to_value":
					v, _ := asm.SplitFirst(nx.Args)
					if x, ok := ix.varLeaf[v]; ok {
						id, what = x, "var-operand"
					} else if x, ok := ix.autoVar[v]; ok {
						id, what = x, "autovar-operand"
					}
				case nx.Op == "switch":
					if x, ok := ix.switches[nx.Args]; ok {
						if a, isAuto := ix.autoVar[nx.Args]; isAuto {
							id, what = a, "autovar-switch-operand"
						} else {
							id, what = -x, "switch-operand"
						}
					}
				case nx.Op == "case":
					if sw := ix.swNode[curSwitch]; sw != nil {
						v, _ := asm.SplitLast(nx.Args)
						for _, c := range sw.Cases {
							if !c.Default && expandToks(c.Value, ix.expand) == v {
								id, what = -c.ID, "case"
							}
						}
					}
				case ix.cmds[nx.Op] != 0:
					id, what = ix.cmds[nx.Op], "command"
				case ix.multi[strings.TrimSpace(nx.Text)] != nil:
					ids := ix.multi[strings.TrimSpace(nx.Text)]
					id, what = ids[0], "command"
					for _, c := range ids {
						if ok, _ := inRange(c, n); ok {
							id = c
						}
					}
				}
			}
			return id, what
		}
		for i := range f.Lines {
			l := &f.Lines[i]
			// presence: a line that renders a marker-bearing construct has its marker directly in front of it
			if (l.Kind == asm.KInstr || l.Kind == asm.KLabel) && (i == 0 || f.Lines[i-1].Kind != asm.KMarker) {
				before := i - 1
				_, isAutoVarCmd := rp.AutoVars[l.Op]
				// (the command of an AutoVar condition is emitted without a marker of its own: the marker sits in front
				// of the comparison that follows it)
				if id, what := classify(l, before, 0); id != 0 && what != "text-continuation" && ix.multi[strings.TrimSpace(l.Text)] == nil && !(what == "command" && isAutoVarCmd) {
					txt := strings.TrimSpace(l.Text)
					if (what == "mart-item" && txt == ".2byte ITEM_NONE") || (what == "movement-step" && (txt == "step_end" || strings.HasPrefix(txt, "."))) {
						// (the terminator the compiler adds has no source line; `.align 2` belongs to the next block)
					} else if what == "text" && l.Kind != asm.KLabel && before >= 0 && f.Lines[before].Kind == asm.KInstr {
						// (only the first line of a text block carries the marker)
					} else {
						k.Violation("marker-missing", fmt.Sprintf("%s %q is emitted without a line marker in front of it (input path %q, -lm on)", what, strings.TrimSpace(l.Text), path), det)
						return
					}
				}
			}
			switch l.Kind {
			case asm.KLabel:
				curLabel, posInBlock = l.Label, 0
			case asm.KInstr:
				if l.Op == "switch" {
					if id, ok := ix.switches[l.Args]; ok {
						curSwitch = id
					}
				}
			}
			if l.Kind != asm.KMarker {
				if l.Kind == asm.KInstr {
					posInBlock++
				}
				continue
			}
			if rawDone[i] {
				continue
			}
			n := l.MLine
			if l.MFile != wantFile {
				k.Violation("marker-file", fmt.Sprintf("marker %q names file %q, expected %q", l.Text, l.MFile, wantFile), det)
				return
			}
			if n < 1 || n > pr.Lines {
				k.Violation("marker-range", fmt.Sprintf("marker %q: line number outside 1..%d", l.Text, pr.Lines), det)
				return
			}
			if i+1 >= len(f.Lines) {
				k.Violation("marker-last", "output ends with a marker", det)
				return
			}
			nx := &f.Lines[i+1]
			id, what := classify(nx, i-1, n)
			if id == 0 {
				k.Count("marker:unclassified", 1)
				k.C.Inconclusive("marker %q precedes %q, which the monitor cannot attribute to a source construct", l.Text, strings.TrimSpace(nx.Text))
				continue
			}
			ok, rng := inRange(id, n)
			if !ok {
				k.Violation("marker-line", fmt.Sprintf("marker %q precedes %s %q, which was written on source line(s) %s", l.Text, what, strings.TrimSpace(nx.Text), rng), det)
				return
			}
			k.Count("marker:"+what, 1)
		}
		k.Nontrivial(nMarkers, pr.Lines, len(rp.Items))
		k.Sample("markers", map[string]interface{}{"source": pr.Src, "path": path})
	})
	// (e) through the binary: source on standard input (no input path) with -lm at its default must give the
	// -lm=false output, and with -i the marker lines must name that file
	ctx.RunCases("cli-no-path", ctx.N(40, 800), func(k *h.Case) {
		g := spec.NewGen(k.R, prof)
		prog := g.FullProgram(1 + k.R.IntN(3))
		pr := layoutOf(k, prog, 0.5)
		k.SetSource(pr.Src)
		o := optsOf(prog, k.R.IntN(2) == 0)
		o.FontPath = filepath.Join(h.RepoDir, "font_config.json")
		plain := h.Compile(pr.Src, o)
		k.Count("evaluations", 1)
		if !plain.OK() {
			k.Count("rejected", 1)
			rejectedValid(k, prog, plain, false)
			return
		}
		dir := workDir(k)
		defer cleanWork(dir)
		o.LM = true
		viaStdin := runCLIFull(dir, pr.Src, prog, o, true, k.R.IntN(2) == 0)
		viaFile := runCLIFull(dir, pr.Src, prog, o, false, false)
		k.Count("evaluations", 2)
		if viaStdin.Err != nil || viaFile.Err != nil {
			k.C.Inconclusive("cannot run the CLI: %v %v", viaStdin.Err, viaFile.Err)
			return
		}
		if viaStdin.Exit != 0 || viaFile.Exit != 0 {
			k.Violation("cli-accept-differs", fmt.Sprintf("the library compiles the program, the binary exits %d (stdin) / %d (-i): %s %s", viaStdin.Exit, viaFile.Exit, firstLineOf(viaStdin.Stderr), firstLineOf(viaFile.Stderr)), nil)
			return
		}
		if viaStdin.Out != plain.Out {
			k.Violation("cli-markers-without-path", "source given on standard input (no input path) with -lm=true: the output differs from the -lm=false output", map[string]interface{}{"stdin_lm": viaStdin.Out, "plain": plain.Out})
			return
		}
		want := cliInputPath(dir)
		nm := 0
		var kept []string
		for _, l := range strings.Split(viaFile.Out, "\n") {
			if asmMarker(l) {
				nm++
				if !strings.HasSuffix(l, " \""+want+"\"") {
					k.Violation("cli-marker-file", fmt.Sprintf("marker %q does not name the input file %q", l, want), map[string]interface{}{"with_markers": viaFile.Out})
					return
				}
				continue
			}
			kept = append(kept, l)
		}
		if strings.Join(kept, "\n") != plain.Out {
			k.Violation("cli-not-transparent", "binary, -i and -lm=true: removing the marker lines does not give the -lm=false output", map[string]interface{}{"with_markers": viaFile.Out, "plain": plain.Out})
			return
		}
		k.Count("cli_markers_seen", int64(nm))
		k.Count("cli_stdin_outputs_without_markers", 1)
		k.Nontrivial("cli", nm, len(pr.Src)/32)
	})
	if ctx.OnlySub == "" {
		for _, c := range []string{"command", "label", "flag-operand", "var-operand", "defeated-operand", "autovar-operand", "switch-operand", "case", "mart-item", "mart-header", "movement-step", "movement-header", "text", "raw-line", "map-script-entry", "table-row"} {
			if ctx.Counter("marker:"+c) == 0 {
				ctx.Inconclusive("no marker of class %q was observed in front of its construct", c)
			}
		}
	}
	rejectGuard(ctx, 0.35)
	return ctx.Finish(
		"whole files with every construct kind under scrambled layouts (constructs spread over lines, comments/blank lines anywhere, raw keyword and back-tick on the same or different lines, CRLF), unique names per construct, input path with/without back-slashes or empty; compiled with -lm=false, -lm with path, -lm without path. Oracle: (a) -lm output minus marker lines == -lm=false output; (b) every marker names the escaped path and a line in 1..#lines; (c) the construct on the following line (command, label, flag/var/defeated/AutoVar operand, switch operand, case, mart item, movement step and headers, raw line, text block, map-script entry, table row), identified by its unique name or its position in its block, was written on a source line range containing that number; (d) no markers without a path; (c2) presence: every line that renders a command, label, case, mart item, movement step, text, map-script entry or table row has a marker directly in front of it, and every marker class must have been observed; (e) the same through the binary: source on standard input with -lm=true gives the -lm=false output, with -i every marker names that file and the rest is the -lm=false output. distinct = (number of markers, source lines, items)",
		ctx.N(500, 5000),
		[]string{"for multi-line constructs any line of the construct is accepted", "raw content never contains lines that look like markers"})
}

func asmMarker(l string) bool {
	if !strings.HasPrefix(l, "# ") || !strings.HasSuffix(l, `"`) {
		return false
	}
	rest := l[2:]
	j := strings.IndexByte(rest, ' ')
	if j <= 0 || j+1 >= len(rest) || rest[j+1] != '"' {
		return false
	}
	for _, c := range rest[:j] {
		if (c < '0' || c > '9') && c != '-' {
			return false
		}
	}
	return true
}
