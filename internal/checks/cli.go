package checks

import (
	"bytes"
	"encoding/json"
	"fmt"
	"os"
	"os/exec"
	"path/filepath"
	"sort"
	"strings"

	"verif.local/pvmon/internal/h"
	"verif.local/pvmon/internal/spec"
)

// cliResult is the outcome of one run of the poryscript binary.
type cliResult struct {
	Out    string
	Stderr string
	Exit   int
	Err    error // failure to run at all
}

// workDir returns (and creates) a scratch directory for a case.
func workDir(k *h.Case) string {
	d := filepath.Join(h.VerifDir, ".work", k.C.Prop, fmt.Sprintf("%s-%d", k.Sub, k.Index))
	os.MkdirAll(d, 0o755)
	return d
}

// writeCmdConfig writes the program's AutoVar table as a command config file.
func writeCmdConfig(dir string, p *spec.Program) string {
	type av struct {
		VarName string `json:"var_name,omitempty"`
		Pos     *int   `json:"var_name_arg_position,omitempty"`
	}
	m := map[string]av{}
	for n, a := range p.AutoVars {
		if a.ArgPos >= 0 {
			pos := a.ArgPos
			m[n] = av{Pos: &pos}
		} else {
			m[n] = av{VarName: a.VarName}
		}
	}
	b, _ := json.Marshal(map[string]interface{}{"autovar_commands": m})
	path := filepath.Join(dir, "command_config.json")
	os.WriteFile(path, b, 0o644)
	return path
}

// runCLI runs the built poryscript binary on src.
func runCLI(dir, src string, p *spec.Program, optimize, lm bool, extra ...string) cliResult {
	bin := os.Getenv("PORYSCRIPT_BIN")
	if bin == "" {
		return cliResult{Err: fmt.Errorf("PORYSCRIPT_BIN not set")}
	}
	in := filepath.Join(dir, "input.pory")
	if err := os.WriteFile(in, []byte(src), 0o644); err != nil {
		return cliResult{Err: err}
	}
	args := []string{"-i", in, "-cc", writeCmdConfig(dir, p), "-fc", filepath.Join(h.RepoDir, "font_config.json"),
		fmt.Sprintf("-optimize=%v", optimize), fmt.Sprintf("-lm=%v", lm)}
	keys := make([]string, 0, len(p.Switches))
	for kk := range p.Switches {
		keys = append(keys, kk)
	}
	sort.Strings(keys)
	for _, kk := range keys {
		args = append(args, "-s", kk+"="+p.Switches[kk])
	}
	args = append(args, extra...)
	cmd := exec.Command(bin, args...)
	var so, se bytes.Buffer
	cmd.Stdout, cmd.Stderr = &so, &se
	err := cmd.Run()
	r := cliResult{Out: so.String(), Stderr: se.String()}
	if err != nil {
		if ee, ok := err.(*exec.ExitError); ok {
			r.Exit = ee.ExitCode()
		} else {
			r.Err = err
		}
	}
	return r
}

func cleanWork(dir string) { os.RemoveAll(dir) }

func firstLineOf(s string) string {
	if i := strings.IndexByte(s, '\n'); i >= 0 {
		return s[:i]
	}
	return s
}
