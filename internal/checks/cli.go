package checks

import (
	"bytes"
	"encoding/json"
	"fmt"
	"os"
	"os/exec"
	"path/filepath"
	"sort"
	"strings"

	"verif.local/pvmon/internal/h"
	"verif.local/pvmon/internal/spec"
)

// cliResult is the outcome of one run of the poryscript binary.
type cliResult struct {
	Out    string
	Stderr string
	Exit   int
	Err    error // failure to run at all
}

// workDir returns (and creates) a scratch directory for a case.
func workDir(k *h.Case) string {
	d := filepath.Join(h.VerifDir, ".work", k.C.Prop, fmt.Sprintf("%s-%d", k.Sub, k.Index))
	os.MkdirAll(d, 0o755)
	return d
}

// writeCmdConfig writes the program's AutoVar table as a command config file.
func writeCmdConfig(dir string, p *spec.Program) string {
	type av struct {
		VarName string `json:"var_name,omitempty"`
		Pos     *int   `json:"var_name_arg_position,omitempty"`
	}
	m := map[string]av{}
	for n, a := range p.AutoVars {
		if a.ArgPos >= 0 {
			pos := a.ArgPos
			m[n] = av{VarName: a.VarName, Pos: &pos}
		} else {
			m[n] = av{VarName: a.VarName}
		}
	}
	b, _ := json.Marshal(map[string]interface{}{"autovar_commands": m})
	path := filepath.Join(dir, "command_config.json")
	os.WriteFile(path, b, 0o644)
	return path
}

// runCLI runs the built poryscript binary on src.
func runCLI(dir, src string, p *spec.Program, optimize, lm bool, extra ...string) cliResult {
	bin := os.Getenv("PORYSCRIPT_BIN")
	if bin == "" {
		return cliResult{Err: fmt.Errorf("PORYSCRIPT_BIN not set")}
	}
	in := filepath.Join(dir, "input.pory")
	if err := os.WriteFile(in, []byte(src), 0o644); err != nil {
		return cliResult{Err: err}
	}
	args := []string{"-i", in, "-cc", writeCmdConfig(dir, p), "-fc", filepath.Join(h.RepoDir, "font_config.json"),
		fmt.Sprintf("-optimize=%v", optimize), fmt.Sprintf("-lm=%v", lm)}
	keys := make([]string, 0, len(p.Switches))
	for kk := range p.Switches {
		keys = append(keys, kk)
	}
	sort.Strings(keys)
	for _, kk := range keys {
		args = append(args, "-s", kk+"="+p.Switches[kk])
	}
	args = append(args, extra...)
	cmd := exec.Command(bin, args...)
	var so, se bytes.Buffer
	cmd.Stdout, cmd.Stderr = &so, &se
	err := cmd.Run()
	r := cliResult{Out: so.String(), Stderr: se.String()}
	if err != nil {
		if ee, ok := err.(*exec.ExitError); ok {
			r.Exit = ee.ExitCode()
		} else {
			r.Err = err
		}
	}
	return r
}

func cleanWork(dir string) { os.RemoveAll(dir) }

func firstLineOf(s string) string {
	if i := strings.IndexByte(s, '\n'); i >= 0 {
		return s[:i]
	}
	return s
}

// runCLIFull runs the binary with the complete option set of o. The input is
// given with -i (then o.Path must be that file's path: use cliInputPath) or on
// standard input; the output is read from standard output or from a -o file.
func runCLIFull(dir, src string, p *spec.Program, o h.Opts, useStdin, useOutFile bool, modes ...string) cliResult {
	bin := os.Getenv("PORYSCRIPT_BIN")
	if bin == "" {
		return cliResult{Err: fmt.Errorf("PORYSCRIPT_BIN not set")}
	}
	has := func(m string) bool {
		for _, x := range modes {
			if x == m {
				return true
			}
		}
		return false
	}
	in := cliInputPath(dir)
	if has("odd-input-path") {
		in = cliOddInputPath
		os.MkdirAll(filepath.Join(dir, "sub dir"), 0o755)
	}
	var args []string
	if !(has("omit-default-flags") && o.Optimize) {
		args = append(args, fmt.Sprintf("-optimize=%v", o.Optimize))
	}
	if !(has("omit-default-flags") && o.LM) {
		args = append(args, fmt.Sprintf("-lm=%v", o.LM))
	}
	cc := writeCmdConfig(dir, p)
	if has("empty-cc") {
		cc = ""
	}
	if has("default-config-paths") {
		// no -cc / -fc: the binary reads command_config.json and font_config.json from its working directory
		if o.FontPath != "" {
			b, err := os.ReadFile(o.FontPath)
			if err != nil {
				return cliResult{Err: err}
			}
			if err := os.WriteFile(filepath.Join(dir, "font_config.json"), b, 0o644); err != nil {
				return cliResult{Err: err}
			}
		}
	} else {
		if has("repeated-cc") && cc != "" {
			// an option given twice: the later value replaces the earlier one (nothing is merged)
			decoy := filepath.Join(dir, "decoy_command_config.json")
			m := map[string]interface{}{}
			for n, a := range p.AutoVars {
				if a.ArgPos >= 0 {
					m[n] = map[string]interface{}{"var_name": "VAR_DECOY"}
				} else {
					m[n] = map[string]interface{}{"var_name_arg_position": 0, "var_name": "VAR_DECOY"}
				}
			}
			m["some_other_command"] = map[string]interface{}{"var_name": "VAR_DECOY"}
			b, _ := json.Marshal(map[string]interface{}{"autovar_commands": m})
			os.WriteFile(decoy, b, 0o644)
			args = append(args, "-cc", decoy)
		}
		args = append(args, "-cc", cc)
		if o.FontPath != "" {
			args = append(args, "-fc", o.FontPath)
		}
	}
	if o.FontID != "" {
		args = append(args, "-f", o.FontID)
	}
	if o.MaxLen != 0 {
		args = append(args, "-l", fmt.Sprint(o.MaxLen))
	}
	keys := make([]string, 0, len(o.Switches))
	for kk := range o.Switches {
		keys = append(keys, kk)
	}
	sort.Strings(keys)
	for _, kk := range keys {
		if has("repeated-switch-keys") {
			args = append(args, "-s", kk+"=overridden_by_the_later_one")
		}
		args = append(args, "-s", kk+"="+o.Switches[kk])
	}
	if !useStdin {
		target := in
		if has("odd-input-path") {
			target = filepath.Join(dir, "sub dir", "ünï \"q\".pory")
		}
		if err := os.WriteFile(target, []byte(src), 0o644); err != nil {
			return cliResult{Err: err}
		}
		args = append(args, "-i", in)
	}
	outFile := filepath.Join(dir, "out.inc")
	if useOutFile {
		// an existing, much longer file: whatever was in it must be gone afterwards
		os.WriteFile(outFile, []byte(strings.Repeat("StaleLabel_from_an_earlier_compilation::\n\tstale_command 1, 2\n\treturn\n\n", 3000)), 0o644)
		args = append(args, "-o", outFile)
	}
	cmd := exec.Command(bin, args...)
	if has("default-config-paths") || has("odd-input-path") {
		cmd.Dir = dir
	}
	var so, se bytes.Buffer
	cmd.Stdout, cmd.Stderr = &so, &se
	if useStdin {
		cmd.Stdin = strings.NewReader(src)
	}
	err := cmd.Run()
	r := cliResult{Out: so.String(), Stderr: se.String()}
	if err != nil {
		if ee, ok := err.(*exec.ExitError); ok {
			r.Exit = ee.ExitCode()
		} else {
			r.Err = err
		}
	}
	if useOutFile && r.Exit == 0 {
		b, rerr := os.ReadFile(outFile)
		if rerr != nil {
			r.Err = rerr
		}
		if so.Len() > 0 {
			r.Stderr += "\n[unexpected standard output with -o: " + firstN(so.String(), 80) + "]"
		}
		r.Out = string(b)
	}
	return r
}

func cliInputPath(dir string) string { return filepath.Join(dir, "input.pory") }

// cliOddInputPath is a relative input path (the binary runs in the case's directory) that no path clean-up
// leaves alone: "./", "..", "//", a blank, non-ASCII letters and quotes. Markers must name it as given.
const cliOddInputPath = "./sub dir/../sub dir//ünï \"q\".pory"
