package checks

import (
	"verif.local/pvmon/internal/asm"
	"verif.local/pvmon/internal/h"
	"verif.local/pvmon/internal/ref"
	"verif.local/pvmon/internal/spec"
)

// blocksOf lists every statement block of a program (unresolved tree).
func blocksOf(p *spec.Program) []*spec.Block {
	var out []*spec.Block
	for _, bc := range collectBlocks(p) {
		out = append(out, bc.b)
	}
	return out
}

// shrinkProgram greedily removes items and statements, hoists bodies out of
// compound statements and simplifies conditions while fails() keeps returning
// true. The tree is modified in place; at most budget calls of fails.
func shrinkProgram(p *spec.Program, fails func() bool, budget int) {
	calls := 0
	try := func(apply, undo func()) bool {
		if calls >= budget {
			return false
		}
		calls++
		apply()
		if fails() {
			return true
		}
		undo()
		return false
	}
	for round := 0; round < 8 && calls < budget; round++ {
		changed := false
		// whole items
		for i := len(p.Items) - 1; i >= 0 && len(p.Items) > 1; i-- {
			if _, isConst := p.Items[i].(*spec.Const); isConst {
				continue // definitions stay: removing one changes what a use means
			}
			saved := p.Items
			if try(func() {
				n := append([]spec.Item{}, saved[:i]...)
				p.Items = append(n, saved[i+1:]...)
			}, func() { p.Items = saved }) {
				changed = true
			}
		}
		for _, b := range blocksOf(p) {
			for i := len(b.Stmts) - 1; i >= 0; i-- {
				if i >= len(b.Stmts) {
					continue
				}
				saved := b.Stmts
				// remove the statement
				if try(func() {
					n := append([]spec.Stmt{}, saved[:i]...)
					b.Stmts = append(n, saved[i+1:]...)
				}, func() { b.Stmts = saved }) {
					changed = true
					continue
				}
				// replace a compound statement by one of its bodies
				var bodies []*spec.Block
				switch x := saved[i].(type) {
				case *spec.If:
					for _, a := range x.Arms {
						bodies = append(bodies, a.Body)
					}
					if x.Else != nil {
						bodies = append(bodies, x.Else)
					}
				case *spec.While:
					bodies = append(bodies, x.Body)
				case *spec.DoWhile:
					bodies = append(bodies, x.Body)
				case *spec.Switch:
					for _, c := range x.Cases {
						bodies = append(bodies, c.Body)
					}
				case *spec.PorySwitch:
					for _, c := range x.Cases {
						bodies = append(bodies, c.Body)
					}
				}
				for _, body := range bodies {
					if body == nil {
						continue
					}
					if try(func() {
						n := append([]spec.Stmt{}, saved[:i]...)
						n = append(n, body.Stmts...)
						b.Stmts = append(n, saved[i+1:]...)
					}, func() { b.Stmts = saved }) {
						changed = true
						break
					}
				}
			}
			// simplify what remains
			for _, st := range b.Stmts {
				switch x := st.(type) {
				case *spec.If:
					if x.Else != nil {
						e := x.Else
						if try(func() { x.Else = nil }, func() { x.Else = e }) {
							changed = true
						}
					}
					for len(x.Arms) > 1 {
						arms := x.Arms
						if !try(func() { x.Arms = arms[:len(arms)-1] }, func() { x.Arms = arms }) {
							break
						}
						changed = true
					}
					for _, a := range x.Arms {
						a := a
						if simplifyCond(&a.Cond, try) {
							changed = true
						}
					}
				case *spec.While:
					if x.Cond != nil && simplifyCond(&x.Cond, try) {
						changed = true
					}
				case *spec.DoWhile:
					if simplifyCond(&x.Cond, try) {
						changed = true
					}
				case *spec.Switch:
					for j := len(x.Cases) - 1; j >= 0 && len(x.Cases) > 1; j-- {
						cs := x.Cases
						if try(func() {
							n := append([]*spec.Case{}, cs[:j]...)
							x.Cases = append(n, cs[j+1:]...)
						}, func() { x.Cases = cs }) {
							changed = true
						}
					}
				case *spec.CmdStmt:
					if len(x.Cmd.Args) > 0 {
						args := x.Cmd.Args
						if try(func() { x.Cmd.Args = nil }, func() { x.Cmd.Args = args }) {
							changed = true
						}
					}
				}
			}
		}
		if !changed {
			break
		}
	}
}

// simplifyCond tries to replace a compound condition by one of its operands.
func simplifyCond(c *spec.Cond, try func(apply, undo func()) bool) bool {
	changed := false
	for depth := 0; depth < 6; depth++ {
		var kids []spec.Cond
		switch x := (*c).(type) {
		case *spec.And:
			kids = x.Xs
		case *spec.Or:
			kids = x.Xs
		case *spec.Not:
			kids = []spec.Cond{x.X}
		case *spec.Paren:
			kids = []spec.Cond{x.X}
		}
		done := true
		orig := *c
		for _, kd := range kids {
			kd := kd
			if try(func() { *c = kd }, func() { *c = orig }) {
				changed, done = true, false
				break
			}
		}
		if done {
			break
		}
	}
	return changed
}

// vmFails reports whether some script of the compiled program behaves
// differently from its source (no counters, no reports): the predicate used
// while shrinking a witness.
func vmFails(k *h.Case, rp *spec.Program, out string, o vmCheckOpts) bool {
	f := asm.Parse(out)
	bnd := boundaryOf(rp, f)
	for _, s := range scriptsOf(rp) {
		sec, err := f.SectionOf(s.Entry, bnd)
		if err != nil {
			return true
		}
		in := ref.New(s.Body, rp.AutoVars)
		in.Render = o.Render
		vm := &asm.VM{F: f, Sec: sec, UserTargets: userTargetsOf(rp)}
		for si := 0; si < 6*o.NStates; si++ {
			st := &ref.HashState{Seed: h.Hash64(k.C.Seed, k.Sub, k.Index, s.Entry, si), Cands: o.Cands}
			rt, vt := in.Run(st), vm.Run(st)
			var a, b []string
			if o.Full {
				a, b = normFull(rt), normFull(vt)
			} else {
				a, b = rt.Cmds(), vt.Cmds()
			}
			if len(vt.Problems) > 0 || !eqStrings(a, b) {
				return true
			}
		}
	}
	return false
}

// minimalWitness shrinks the (unresolved) program orig while its compiled
// output still misbehaves, and returns the reduced source and output.
func minimalWitness(k *h.Case, orig *spec.Program, optimize bool, o vmCheckOpts) (string, string) {
	lastOut := ""
	fails := func() bool {
		src := spec.Source(orig)
		res := h.Compile(src, optsOf(orig, optimize))
		if !res.OK() {
			return false
		}
		rp, err := spec.Resolve(orig, orig.Switches)
		if err != nil {
			return false
		}
		if o.Render != nil {
			o.Render = buildLabelModel(rp).renderCmd
		}
		if vmFails(k, rp, res.Out, o) {
			lastOut = res.Out
			return true
		}
		return false
	}
	if !fails() {
		return "", ""
	}
	shrinkProgram(orig, fails, 400)
	fails()
	return spec.Source(orig), lastOut
}

// shrinkFor reduces prog while eval (run on a dry case against the canonical
// layout of the current tree) still reports a violation with the given key, and
// returns the reduced source plus the message of that violation.
func shrinkFor(k *h.Case, prog *spec.Program, key string, eval func(kk *h.Case, src string)) (string, string) {
	lastMsg := ""
	fails := func() bool {
		kk, pr := k.Dry()
		eval(kk, spec.Source(prog))
		for i, kx := range pr.Keys {
			if kx == key {
				lastMsg = pr.Msgs[i]
				return true
			}
		}
		return false
	}
	if !fails() {
		return "", ""
	}
	shrinkProgram(prog, fails, 300)
	fails()
	return spec.Source(prog), lastMsg
}
