package checks

import (
	"fmt"
	"strings"

	"verif.local/pvmon/internal/asm"
	"verif.local/pvmon/internal/h"
	"verif.local/pvmon/internal/ref"
	"verif.local/pvmon/internal/spec"
)

// Skeleton grammar (one character per node):
//   c command, e end, r return, b break, k continue (only last in its block, only in loops),
//   i(B) if, j(B)(B) if/else, w(B) while, f(B) condition-less while, d(B) do...while
// Every condition is a single flag leaf with its own operand.

type skelKey struct {
	n, depth int
	inLoop   bool
}

var skelStmtMemo = map[skelKey][]string{}
var skelBlockMemo = map[skelKey][]string{}

const skelMaxBlockLen = 3

func skelStmts(n, depth int, inLoop bool) []string {
	k := skelKey{n, depth, inLoop}
	if r, ok := skelStmtMemo[k]; ok {
		return r
	}
	var out []string
	if n == 1 {
		out = append(out, "c", "e")
		if inLoop {
			out = append(out, "b")
		}
	}
	if depth > 0 && n >= 1 {
		rest := n - 1
		for _, b := range skelBlocks(rest, depth-1, inLoop, skelMaxBlockLen) {
			out = append(out, "i("+b+")")
		}
		for a := 0; a <= rest; a++ {
			for _, x := range skelBlocks(a, depth-1, inLoop, skelMaxBlockLen) {
				for _, y := range skelBlocks(rest-a, depth-1, inLoop, skelMaxBlockLen) {
					out = append(out, "j("+x+")("+y+")")
				}
			}
		}
		for _, b := range skelBlocks(rest, depth-1, true, skelMaxBlockLen) {
			out = append(out, "w("+b+")", "f("+b+")", "d("+b+")")
		}
	}
	skelStmtMemo[k] = out
	return out
}

// skelBlocks lists blocks with exactly n nodes and at most maxLen statements.
func skelBlocks(n, depth int, inLoop bool, maxLen int) []string {
	if n == 0 {
		return []string{""}
	}
	if maxLen == 0 {
		return nil
	}
	k := skelKey{n*10 + maxLen, depth, inLoop}
	if r, ok := skelBlockMemo[k]; ok {
		return r
	}
	var out []string
	for m := 1; m <= n; m++ {
		firsts := skelStmts(m, depth, inLoop)
		rests := skelBlocks(n-m, depth, inLoop, maxLen-1)
		for _, f := range firsts {
			for _, r := range rests {
				out = append(out, f+r)
			}
		}
	}
	if n == 1 && inLoop {
		out = append(out, "k")
	}
	skelBlockMemo[k] = out
	return out
}

// buildSkeleton turns a skeleton string into a script body.
func buildSkeleton(g *spec.Gen, s string) *spec.Block {
	pos := 0
	var block func() *spec.Block
	flag := func() spec.Cond {
		return &spec.Leaf{ID: g.Prog.NewID(), Kind: spec.LeafFlag, Operand: []string{g.Name("FLAG_")}}
	}
	block = func() *spec.Block {
		b := &spec.Block{ID: g.Prog.NewID()}
		for pos < len(s) && s[pos] != ')' {
			ch := s[pos]
			pos++
			sub := func() *spec.Block {
				pos++ // (
				x := block()
				pos++ // )
				return x
			}
			switch ch {
			case 'c':
				b.Stmts = append(b.Stmts, marker(g, "c"))
			case 'e':
				b.Stmts = append(b.Stmts, &spec.CmdStmt{Cmd: &spec.Cmd{ID: g.Prog.NewID(), Name: "end"}})
			case 'b':
				b.Stmts = append(b.Stmts, &spec.Break{ID: g.Prog.NewID()})
			case 'k':
				b.Stmts = append(b.Stmts, &spec.Continue{ID: g.Prog.NewID()})
			case 'i':
				b.Stmts = append(b.Stmts, &spec.If{ID: g.Prog.NewID(), Arms: []*spec.Arm{{Cond: flag(), Body: sub()}}})
			case 'j':
				x := sub()
				y := sub()
				b.Stmts = append(b.Stmts, &spec.If{ID: g.Prog.NewID(), Arms: []*spec.Arm{{Cond: flag(), Body: x}}, Else: y})
			case 'w':
				b.Stmts = append(b.Stmts, &spec.While{ID: g.Prog.NewID(), Cond: flag(), Body: sub()})
			case 'f':
				b.Stmts = append(b.Stmts, &spec.While{ID: g.Prog.NewID(), Body: sub()})
			case 'd':
				body := sub()
				b.Stmts = append(b.Stmts, &spec.DoWhile{ID: g.Prog.NewID(), Body: body, Cond: flag()})
			}
		}
		return b
	}
	return block()
}

// allSkeletons lists every script body skeleton with 1..maxNodes nodes.
func allSkeletons(maxNodes, depth int) []string {
	var out []string
	for n := 1; n <= maxNodes; n++ {
		out = append(out, skelBlocks(n, depth, false, skelMaxBlockLen)...)
	}
	return out
}

// runC01Enumerated: every skeleton, both optimize settings, every decision
// sequence (depth-first, first maxDec decisions free, later ones 0).
func runC01Enumerated(ctx *h.Ctx) {
	maxNodes, maxDec := 4, 8
	if !ctx.Quick() {
		maxNodes, maxDec = 5, 10
	}
	skels := allSkeletons(maxNodes, 3)
	ctx.RunCases("all-skeletons", len(skels), func(k *h.Case) {
		sk := skels[k.Index]
		g := spec.NewGen(k.R, spec.Profile{})
		body := buildSkeleton(g, sk)
		// a trailing command after the construct under test, so that "what runs afterwards" is observed too
		body.Stmts = append(body.Stmts, marker(g, "after"))
		s := &spec.Script{ID: g.Prog.NewID(), Name: g.Name("Scr"), Body: body}
		g.Prog.Items = append(g.Prog.Items, s)
		src := spec.Source(g.Prog)
		k.SetSource(src)
		for _, opt := range []bool{true, false} {
			res := h.Compile(src, optsOf(g.Prog, opt))
			k.Count("evaluations", 1)
			if !res.OK() {
				k.Count("rejected", 1)
				k.Count("rejected: "+rejectFamily(res.ErrString()), 1)
				rejectedValid(k, g.Prog, res, false)
				return
			}
			f := asm.Parse(res.Out)
			sec, err := f.SectionOf(s.Name, boundaryOf(g.Prog, f))
			if err != nil {
				k.Violation("entry-label", err.Error(), map[string]interface{}{"output": res.Out})
				return
			}
			in := ref.New(body, nil)
			vm := &asm.VM{F: f, Sec: sec, UserTargets: userTargetsOf(g.Prog)}
			dec := []int{}
			paths := 0
			for {
				st := ref.NewDecState(dec)
				rt := in.Run(st)
				fz := st.Freeze()
				vt := vm.Run(fz)
				paths++
				if fz.Unseen > 0 {
					// every condition of a skeleton is one flag with its own operand: the assembly may only test what
					// the source tested on this path
					k.Violation("assembly-tests-more", fmt.Sprintf("[optimize=%v] skeleton %s, decisions %v: the assembly tests %d flag(s)/var(s) that the source does not test on this path", opt, sk, dec, fz.Unseen), map[string]interface{}{"output": res.Out})
					return
				}
				a, b := rt.Cmds(), vt.Cmds()
				if len(vt.Problems) > 0 || !eqStrings(a, b) {
					k.Violation("", fmt.Sprintf("[optimize=%v] skeleton %s, decisions %v: %s\n%s", opt, sk, dec, strings.Join(vt.Problems, "; "), diffTraces(a, b)), map[string]interface{}{"output": res.Out})
					return
				}
				next, ok := ref.NextDecisions(dec, st.Arity, maxDec)
				if !ok {
					break
				}
				dec = next
			}
			k.Count("decision_sequences", int64(paths))
			k.Count("vm_runs", int64(paths))
		}
		k.Count("accepted", 1)
		k.Nontrivial("skeleton", sk)
		if k.Index%997 == 0 {
			k.Sample("skeleton", map[string]interface{}{"skeleton": sk, "source": src})
		}
	})
	ctx.Exhaustive("statement skeletons", int64(len(skels)), fmt.Sprintf("every script body with 1..%d nodes over {command, end, break, continue, if, if/else, while, condition-less while, do-while}, blocks of at most %d statements, nesting depth <= 3, followed by one command; for each, every decision sequence of its flag tests (first %d decisions free)", maxNodes, skelMaxBlockLen, maxDec))
}
