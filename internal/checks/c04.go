package checks

import (
	"fmt"
	"strings"

	"verif.local/pvmon/internal/asm"
	"verif.local/pvmon/internal/h"
	"verif.local/pvmon/internal/spec"
)

func init() { Registry["C04"] = runC04 }

// profFull mixes every statement kind; used by the whole-file checks.
func profFull() spec.Profile {
	return spec.Profile{
		MaxDepth: 3, MaxLen: 4,
		WCmd: 30, WLabel: 8, WGoto: 5, WEnd: 4, WIf: 12, WWhile: 7, WInfWhile: 3, WDoWhile: 5, WBreak: 8, WContinue: 5, WSwitch: 9, WPory: 4,
		MaxLeaves: 3, PAuto: 0.2, PTextArg: 0.25, PMovesArg: 0.12, PFormat: 0.1, PTyped: 0.2,
		PEmptyBody: 0.1, AfterJump: 0.6, PElse: 0.5, MaxElif: 2, MaxCases: 5, PDefault: 0.5, PEmptyCase: 0.3,
		PoryKeys: []string{"GAME", "LANG"}, PFallback: 0.9,
	}
}

// userLabelsOf lists the label statements of a block (recursively).
func userLabelsOf(b *spec.Block, out *[]string) {
	if b == nil {
		return
	}
	for _, st := range b.Stmts {
		switch x := st.(type) {
		case *spec.Label:
			*out = append(*out, x.Name)
		case *spec.If:
			for _, a := range x.Arms {
				userLabelsOf(a.Body, out)
			}
			userLabelsOf(x.Else, out)
		case *spec.While:
			userLabelsOf(x.Body, out)
		case *spec.DoWhile:
			userLabelsOf(x.Body, out)
		case *spec.Switch:
			for _, c := range x.Cases {
				userLabelsOf(c.Body, out)
			}
		}
	}
}

// closedCheck applies the C04 static oracle to one output.
func closedCheck(k *h.Case, rp *spec.Program, out string, tag string) bool {
	f := asm.Parse(out)
	bad := func(key, format string, a ...interface{}) bool {
		k.Violation(key, "["+tag+"] "+fmt.Sprintf(format, a...), map[string]interface{}{"output": out})
		return false
	}
	// (a) every label defined exactly once
	for name, defs := range f.Labels {
		if len(defs) != 1 {
			return bad("label-defined-twice", "label %q is defined %d times (lines %v)", name, len(defs), defs)
		}
	}
	k.Count("labels_checked", int64(len(f.Labels)))
	// user-written reference targets that may legitimately be undefined
	userTargets := userTargetsOf(rp)
	for _, it := range rp.Items {
		if m, ok := it.(*spec.MapScripts); ok {
			for _, e := range m.Entries {
				if e.Kind == 0 {
					userTargets[e.Label] = true
				}
				for _, r := range e.Rows {
					if r.Body == nil {
						userTargets[r.Label] = true
					}
				}
			}
		}
	}
	// (b) generated references resolve
	for _, r := range f.Refs() {
		if len(f.Labels[r.Label]) == 0 && !userTargets[r.Label] {
			return bad("undefined-reference", "line %d: %s refers to %q, which is not defined in the output and was not written by the author", r.Line+1, r.Kind, r.Label)
		}
		k.Count("refs_checked", 1)
	}
	lm := buildLabelModel(rp)
	byOp := map[string]*asm.Line{}
	for i := range f.Lines {
		if l := &f.Lines[i]; l.Kind == asm.KInstr {
			if _, dup := byOp[l.Op]; !dup {
				byOp[l.Op] = l
			}
		}
	}
	okAll := true
	for _, s := range scriptsOf(rp) {
		allCmds(s.Body, func(c *spec.Cmd) {
			if !okAll {
				return
			}
			hasInline := false
			for _, a := range c.Args {
				if a.Text != nil || a.Moves != nil {
					hasInline = true
				}
			}
			if !hasInline {
				return
			}
			l := byOp[c.Name]
			if l == nil {
				return // unreachable code may be dropped only by C10's oracle; not judged here
			}
			parts := strings.Split(l.Args, ",")
			if len(parts) != len(c.Args) {
				return
			}
			for i, a := range c.Args {
				if a.Text != nil || a.Moves != nil {
					lbl := strings.TrimSpace(parts[i])
					if len(f.Labels[lbl]) == 0 {
						okAll = bad("undefined-hoisted-label", "command %q argument %d is the hoisted label %q, which is not defined in the output", c.Name, i, lbl)
						return
					}
					k.Count("hoisted_args_checked", 1)
				}
			}
		})
	}
	if !okAll {
		return false
	}
	// independent of the alignment above: every argument token of an instruction that is a hoisted label of the
	// model must be defined in the output
	hoisted := map[string]bool{}
	for _, t := range lm.Texts {
		hoisted[t.Label] = true
	}
	for _, m := range lm.Moves {
		hoisted[m.Label] = true
	}
	for i := range f.Lines {
		l := &f.Lines[i]
		if l.Kind != asm.KInstr || l.IsData() {
			continue
		}
		for _, tok := range strings.FieldsFunc(l.Args, func(r rune) bool { return r == ',' || r == ' ' || r == '\t' || r == '(' || r == ')' }) {
			if hoisted[tok] {
				if len(f.Labels[tok]) == 0 {
					return bad("undefined-hoisted-label", "line %d: %q uses the hoisted label %q, which is not defined in the output", i+1, strings.TrimSpace(l.Text), tok)
				}
				k.Count("hoisted_label_uses_checked", 1)
			}
		}
	}
	// (c) user labels present once, inside their script's section; (d) section ends in a terminator
	bnd := boundaryOf(rp, f)
	for _, s := range scriptsOf(rp) {
		sec, err := f.SectionOf(s.Entry, bnd)
		if err != nil {
			return bad("entry-label", "%v", err)
		}
		var labels []string
		userLabelsOf(s.Body, &labels)
		for _, l := range labels {
			defs := f.Labels[l]
			if len(defs) != 1 {
				return bad("user-label-lost", "label statement %q of script %s is defined %d times in the output", l, s.Entry, len(defs))
			}
			if defs[0] < sec.Start || defs[0] >= sec.End {
				return bad("user-label-misplaced", "label statement %q of script %s is emitted outside its script (line %d, script spans %d..%d)", l, s.Entry, defs[0]+1, sec.Start+1, sec.End)
			}
			k.Count("user_labels_checked", 1)
		}
		last := -1
		for i := sec.Start; i < sec.End; i++ {
			if f.Lines[i].Kind == asm.KInstr {
				last = i
			}
		}
		if last < 0 {
			return bad("empty-section", "script %s has no instruction", s.Entry)
		}
		ll := f.Lines[last]
		if !((ll.Op == "return" || ll.Op == "end") && ll.Args == "" || ll.Op == "goto") {
			return bad("run-off-static", "script %s: last instruction %q (line %d) is not return/end/goto, execution can run into what follows", s.Entry, ll.Text, last+1)
		}
		// every control path from the entry and from every label statement (both outcomes of every
		// test, hence every game state) stays inside the script until return/end/an outward jump
		starts := []int{sec.Start}
		for _, l := range labels {
			starts = append(starts, f.Labels[l][0])
		}
		probs, reached := f.ReachProblems(sec, starts, userTargets)
		if len(probs) > 0 {
			return bad("run-off-path", "script %s: %s", s.Entry, strings.Join(probs, "; "))
		}
		k.Count("instructions_reached_all_paths", int64(reached))
		k.Count("sections_checked", 1)
	}
	return true
}

func runC04(ctx *h.Ctx) int {
	prof := profFull()
	ctx.RunCases("full-programs", ctx.N(5000, 200000), func(k *h.Case) {
		p := prof
		p.WCondGoto = 3
		if k.Index%3 == 1 {
			// `continue` ending a poryswitch case in the middle of a block: what follows must survive
			p.PoryContinueAnywhere, p.WPory, p.WContinue = true, 10, 10
		}
		if k.Index%3 == 0 {
			// extra weight on labels in unreachable code
			p.WLabel, p.AfterJump, p.WBreak, p.WEnd, p.WGoto = 16, 0.9, 12, 8, 8
		}
		g := spec.NewGen(k.R, p)
		prog := g.FullProgram(1 + k.R.IntN(5))
		rp, rerr := spec.Resolve(prog, prog.Switches)
		pr := layoutOf(k, prog, 0.2)
		k.SetSource(pr.Src)
		for _, opt := range []bool{true, false} {
			res := h.Compile(pr.Src, optsOf(prog, opt))
			k.Count("evaluations", 1)
			if !res.OK() {
				k.Count("rejected", 1)
				k.Count("rejected: "+rejectFamily(res.ErrString()), 1)
				debugReject(pr.Src, res.ErrString())
				rejectedValid(k, prog, res, false)
				return
			}
			if rerr != nil {
				acceptedUnmatched(k)
				return
			}
			k.Count("accepted", 1)
			tag := fmt.Sprintf("optimize=%v", opt)
			if kk, probe := k.Dry(); !closedCheck(kk, rp, res.Out, tag) && len(probe.Keys) > 0 {
				// reduce the program while the same kind of violation remains, then report
				key, msg := probe.Keys[0], probe.Msgs[0]
				det := map[string]interface{}{"output": res.Out}
				msrc, mmsg := shrinkFor(k, prog, key, func(k2 *h.Case, src string) {
					r := h.Compile(src, optsOf(prog, opt))
					rp2, err := spec.Resolve(prog, prog.Switches)
					if r.OK() && err == nil {
						closedCheck(k2, rp2, r.Out, tag)
					}
				})
				if msrc != "" {
					msg += "\nreduced witness:\n" + msrc + "--- " + mmsg
					det["minimal_source"] = msrc
					det["minimal_output"] = h.Compile(msrc, optsOf(prog, opt)).Out
				}
				k.Violation(key, msg, det)
				return
			}
			closedCheck(k, rp, res.Out, tag)
			if !vmCheck(k, rp, res.Out, vmCheckOpts{NStates: ctx.N(4, 12), Cands: g.Cands(), Orig: prog, Optimize: opt}, tag) {
				return
			}
		}
		for _, s := range scriptsOf(rp) {
			if sh := shapeOfBlock(s.Body); len(sh) > 4 {
				k.Nontrivial(sh)
			}
		}
		k.Sample("full-program", pr.Src)
	})
	// names that differ only by trailing digits (Foo1 / Foo11 / Foo2), each script with two-digit chunk ids:
	// sub-labels of different scripts must never coincide or be confused
	ctx.RunCases("digit-suffixed-names", ctx.N(400, 20000), func(k *h.Case) {
		g := spec.NewGen(k.R, profC01())
		base := g.Name("Town")
		for _, suf := range []string{"1", "11", "2", "12", "111"}[:2+k.R.IntN(4)] {
			body := manyChunkBody(g, 9+k.R.IntN(8))
			if k.R.IntN(2) == 0 {
				body.Stmts = append(body.Stmts, g.ScriptBody(base+suf).Stmts...)
			}
			g.Prog.Items = append(g.Prog.Items, &spec.Script{ID: g.Prog.NewID(), Name: base + suf, Body: body})
		}
		k.R.Shuffle(len(g.Prog.Items), func(i, j int) { g.Prog.Items[i], g.Prog.Items[j] = g.Prog.Items[j], g.Prog.Items[i] })
		prog := g.Prog
		src := spec.Source(prog)
		k.SetSource(src)
		for _, opt := range []bool{true, false} {
			res := h.Compile(src, optsOf(prog, opt))
			k.Count("evaluations", 1)
			if !res.OK() {
				k.Count("rejected", 1)
				k.Count("rejected: "+rejectFamily(res.ErrString()), 1)
				rejectedValid(k, prog, res, false)
				return
			}
			k.Count("accepted", 1)
			tag := fmt.Sprintf("digit-suffixed names, optimize=%v", opt)
			if !closedCheck(k, prog, res.Out, tag) || !vmCheck(k, prog, res.Out, vmCheckOpts{NStates: 6, Cands: g.Cands()}, tag) {
				return
			}
		}
		k.Count("digit_suffixed_files_checked", 1)
		k.Nontrivial("digits", len(prog.Items), len(src)/200)
	})
	// the same text / movement name written twice, and one map script type used for two label-bearing entries: the
	// compiler promises to reject these; whatever it accepts must define every label once
	ctx.RunCases("repeated-definitions", ctx.N(600, 30000), func(k *h.Case) {
		g := spec.NewGen(k.R, prof)
		prog := g.FullProgram(2 + k.R.IntN(4))
		what := ""
		switch k.R.IntN(3) {
		case 0:
			var ts []*spec.TextItem
			for _, it := range prog.Items {
				if t, ok := it.(*spec.TextItem); ok {
					ts = append(ts, t)
				}
			}
			name := g.Name("TxtTwice")
			if len(ts) > 0 {
				name = ts[k.R.IntN(len(ts))].Name
			} else {
				prog.Items = append(prog.Items, &spec.TextItem{ID: prog.NewID(), Name: name, Val: &spec.TextVal{ID: prog.NewID(), Parts: []string{"first"}}})
			}
			dup := &spec.TextItem{ID: prog.NewID(), Name: name, Scope: k.R.IntN(3), Val: &spec.TextVal{ID: prog.NewID(), Parts: []string{"second definition"}}}
			at := k.R.IntN(len(prog.Items) + 1)
			prog.Items = append(prog.Items[:at:at], append([]spec.Item{dup}, prog.Items[at:]...)...)
			what = "two text statements with one name"
		case 1:
			name := g.Name("MovTwice")
			for _, it := range prog.Items {
				if m, ok := it.(*spec.MovementItem); ok {
					name = m.Name
				}
			}
			prog.Items = append(prog.Items, &spec.MovementItem{ID: prog.NewID(), Name: name, Steps: []*spec.ListElem{{ID: prog.NewID(), Name: "walk_up"}}})
			dup := &spec.MovementItem{ID: prog.NewID(), Name: name, Scope: k.R.IntN(3), Steps: []*spec.ListElem{{ID: prog.NewID(), Name: "walk_down"}}}
			at := k.R.IntN(len(prog.Items) + 1)
			prog.Items = append(prog.Items[:at:at], append([]spec.Item{dup}, prog.Items[at:]...)...)
			what = "two movement statements with one name"
		default:
			m := &spec.MapScripts{ID: prog.NewID(), Name: g.Name("MapTwice")}
			typ := "MAP_SCRIPT_ON_FRAME_TABLE"
			mk := func(kind int) *spec.MSEntry {
				e := &spec.MSEntry{ID: prog.NewID(), Type: typ, Kind: kind}
				if kind == 1 {
					e.Body = &spec.Block{ID: prog.NewID(), Stmts: []spec.Stmt{&spec.CmdStmt{Cmd: g.Cmd()}}}
				} else {
					e.Rows = []*spec.MSRow{{ID: prog.NewID(), Var: []string{"VAR_A"}, Value: []string{"0"}, Label: g.Name("Target")}}
				}
				return e
			}
			m.Entries = []*spec.MSEntry{mk(1 + k.R.IntN(2)), {ID: prog.NewID(), Type: "MAP_SCRIPT_ON_LOAD", Kind: 0, Label: g.Name("Target")}, mk(1 + k.R.IntN(2))}
			prog.Items = append(prog.Items, m)
			what = "one map script type for two label-bearing entries"
		}
		src := spec.Source(prog)
		k.SetSource(src)
		for _, opt := range []bool{true, false} {
			res := h.Compile(src, optsOf(prog, opt))
			k.Count("evaluations", 1)
			if res.Panic != nil {
				k.Violation("compiler-panic", fmt.Sprintf("panic: %v", res.Panic), nil)
				return
			}
			if !res.OK() {
				k.Count("repeated_definitions_rejected", 1)
				continue
			}
			f := asm.Parse(res.Out)
			for name, defs := range f.Labels {
				if len(defs) > 1 {
					k.Violation("label-defined-twice", fmt.Sprintf("[optimize=%v] %s: the file is accepted and label %q is defined %d times (lines %v)", opt, what, name, len(defs), defs), map[string]interface{}{"output": res.Out})
					return
				}
			}
			k.Count("repeated_definitions_accepted_with_unique_labels", 1)
		}
		k.Nontrivial("repdef", what, len(prog.Items))
	})
	// big scripts: three-digit sub-labels and two-digit hoisted text / movement indices
	ctx.RunCases("big-scripts", ctx.N(24, 400), func(k *h.Case) {
		p := profC01()
		p.MaxDepth, p.MaxLen, p.PTextArg, p.PMovesArg = 2, 2, 0.5, 0.2
		p.TextPool = nil
		p.PCall, p.PEndVariants = 0, 0 // (the hoisting oracle finds a command through its unique name)
		g := spec.NewGen(k.R, p)
		sc := &spec.Script{ID: g.Prog.NewID(), Name: g.Name("ScrBig"), Body: &spec.Block{ID: g.Prog.NewID()}}
		n := 45 + k.R.IntN(30)
		for i := 0; i < n; i++ {
			// distinct texts, so that the hoisted indices keep counting
			c := g.Cmd()
			c.Args = append(c.Args, &spec.Arg{Text: &spec.TextVal{ID: g.Prog.NewID(), Parts: []string{fmt.Sprintf("text number %d", i)}}})
			body := &spec.Block{ID: g.Prog.NewID(), Stmts: []spec.Stmt{&spec.CmdStmt{Cmd: c}}}
			var st spec.Stmt = &spec.If{ID: g.Prog.NewID(), Arms: []*spec.Arm{{Cond: g.LeafCond(), Body: body}}}
			if k.R.IntN(4) == 0 {
				st = &spec.While{ID: g.Prog.NewID(), Cond: g.LeafCond(), Body: body}
			}
			sc.Body.Stmts = append(sc.Body.Stmts, st)
		}
		g.Prog.Items = append(g.Prog.Items, sc)
		prog := g.Prog
		src := spec.Source(prog)
		k.SetSource(src)
		for _, opt := range []bool{true, false} {
			res := h.Compile(src, optsOf(prog, opt))
			k.Count("evaluations", 1)
			if !res.OK() {
				k.Count("rejected", 1)
				rejectedValid(k, prog, res, false)
				return
			}
			k.Count("accepted", 1)
			tag := fmt.Sprintf("big script, optimize=%v", opt)
			if !closedCheck(k, prog, res.Out, tag) {
				return
			}
			if !hoistCheck(k, prog, res.Out, tag) {
				return
			}
			if !vmCheck(k, prog, res.Out, vmCheckOpts{NStates: 6, Cands: g.Cands(), Optimize: opt, NoDecisionWalk: true}, tag) {
				return
			}
			f := asm.Parse(res.Out)
			k.Count("labels_in_big_scripts", int64(len(f.Labels)))
		}
		k.Count("big_scripts_checked", 1)
		k.Nontrivial("big", n)
	})
	// what the binary leaves in its -o file (an existing, longer file is replaced) is the output the properties
	// speak of
	ctx.RunCases("cli-output-file", ctx.N(30, 400), func(k *h.Case) {
		g := spec.NewGen(k.R, prof)
		prog := g.FullProgram(1 + k.R.IntN(3))
		rp, rerr := spec.Resolve(prog, prog.Switches)
		if rerr != nil {
			return
		}
		src := spec.Source(prog)
		k.SetSource(src)
		dir := workDir(k)
		defer cleanWork(dir)
		o := optsOf(prog, k.R.IntN(2) == 0)
		cli := runCLIFull(dir, src, prog, o, k.R.IntN(3) == 0, true)
		k.Count("evaluations", 1)
		if cli.Err != nil {
			k.C.Inconclusive("cannot run the CLI: %v", cli.Err)
			return
		}
		if lib := h.Compile(src, o); lib.OK() != (cli.Exit == 0) {
			k.Violation("cli-accept-differs", fmt.Sprintf("the library %s the program, the binary exits %d: %s", map[bool]string{true: "accepts", false: "rejects"}[lib.OK()], cli.Exit, firstLineOf(cli.Stderr)), nil)
			return
		}
		if cli.Exit != 0 {
			k.Count("rejected", 1)
			return
		}
		k.Count("accepted", 1)
		if closedCheck(k, rp, cli.Out, "binary, -o into an existing longer file") {
			k.Count("cli_output_files_checked", 1)
			k.Nontrivial("clifile", len(cli.Out)/64)
		}
	})
	rejectGuard(ctx, 0.35)
	return ctx.Finish(
		"whole files mixing scripts, text, movement, mart, mapscripts (plain/inline/table), raw, inline text/moves(), poryswitch, AutoVar conditions; with extra weight on labels in unreachable code. Oracle on each output (optimize on and off): every label defined once; every generated jump/case/map-script/hoisted-argument label defined (author-written goto and plain map-script targets may be external); every label statement present once inside its own script; last instruction of every script is return/end/goto; VM runs never fall out of a script, never hit an undefined label. distinct = distinct script body signature",
		ctx.N(500, 5000),
		[]string{"names chosen by the generator never imitate generated names", "section of a script = from its entry label to the next top-level/hoisted-data label"})
}
