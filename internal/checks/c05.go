package checks

import (
	"fmt"
	"sort"
	"strings"

	"verif.local/pvmon/internal/asm"
	"verif.local/pvmon/internal/h"
	"verif.local/pvmon/internal/ref"
	"verif.local/pvmon/internal/spec"
)

func init() { Registry["C05"] = runC05 }

type fileView struct {
	f        *asm.File
	secs     map[string]asm.Section
	inScript []bool // line belongs to some script section
}

func viewOf(rp *spec.Program, out string) (*fileView, error) {
	f := asm.Parse(out)
	v := &fileView{f: f, secs: map[string]asm.Section{}, inScript: make([]bool, len(f.Lines))}
	bnd := boundaryOf(rp, f)
	for _, s := range scriptsOf(rp) {
		sec, err := f.SectionOf(s.Entry, bnd)
		if err != nil {
			return nil, err
		}
		v.secs[s.Entry] = sec
		for i := sec.Start; i < sec.End; i++ {
			v.inScript[i] = true
		}
	}
	return v, nil
}

// nonScriptText returns the text of all lines outside script sections (blank
// lines dropped: chunk separators are layout).
func (v *fileView) nonScriptText() string {
	var sb strings.Builder
	for i, l := range v.f.Lines {
		if !v.inScript[i] && l.Kind != asm.KBlank {
			sb.WriteString(l.Text)
			sb.WriteByte('\n')
		}
	}
	return sb.String()
}

// redundancyCheck applies (d) and (e) to one output.
func redundancyCheck(k *h.Case, rp *spec.Program, v *fileView, out, tag string) bool {
	f := v.f
	userGoto := userTargetsOf(rp)
	userLabel := map[string]bool{}
	for _, s := range scriptsOf(rp) {
		var ls []string
		userLabelsOf(s.Body, &ls)
		for _, l := range ls {
			userLabel[l] = true
		}
	}
	referenced := map[string]bool{}
	for _, r := range f.Refs() {
		referenced[r.Label] = true
	}
	for name, sec := range v.secs {
		for i := sec.Start; i < sec.End; i++ {
			l := &f.Lines[i]
			if l.Kind == asm.KInstr && l.Op == "goto" && !userGoto[l.Args] {
				n := f.NextCode(i)
				if n < len(f.Lines) && f.Lines[n].Kind == asm.KLabel && f.Lines[n].Label == l.Args {
					k.Violation("goto-next-line", fmt.Sprintf("[%s] script %s line %d: generated `goto %s` targets the label on the very next line", tag, name, i+1, l.Args), map[string]interface{}{"output": out})
					return false
				}
				k.Count("generated_gotos_checked", 1)
			}
			if l.Kind == asm.KLabel && i != sec.Start && !userLabel[l.Label] {
				if !referenced[l.Label] {
					k.Violation("unreferenced-sublabel", fmt.Sprintf("[%s] script %s line %d: generated sub-label %q is never referenced", tag, name, i+1, l.Label), map[string]interface{}{"output": out})
					return false
				}
				k.Count("sublabels_checked", 1)
			}
		}
	}
	return true
}

func instrMultiset(v *fileView, sec asm.Section) []string {
	var out []string
	for i := sec.Start; i < sec.End; i++ {
		l := &v.f.Lines[i]
		if l.Kind == asm.KInstr && l.Op != "goto" {
			out = append(out, strings.TrimSpace(l.Text))
		}
	}
	sort.Strings(out)
	return out
}

func userVisibleLabels(v *fileView, rp *spec.Program) []string {
	// every label of the file that is not a generated sub-label: with colon count
	var out []string
	userLabel := map[string]bool{}
	for _, s := range scriptsOf(rp) {
		var ls []string
		userLabelsOf(s.Body, &ls)
		for _, l := range ls {
			userLabel[l] = true
		}
	}
	for i, l := range v.f.Lines {
		if l.Kind != asm.KLabel {
			continue
		}
		sub := false
		if v.inScript[i] {
			isEntry := false
			for _, sec := range v.secs {
				if sec.Start == i {
					isEntry = true
				}
			}
			sub = !isEntry && !userLabel[l.Label]
		}
		if !sub {
			out = append(out, l.Text)
		}
	}
	sort.Strings(out)
	return out
}

func runC05(ctx *h.Ctx) int {
	prof := profFull()
	ctx.RunCases("optimize-pairs", ctx.N(4000, 200000), func(k *h.Case) {
		p := prof
		p.WCondGoto = 3
		// the same operand and comparison twice in a row, and single-call bodies: what an optimizer likes to merge
		p.PReuseOperand, p.PCall = 0.25, 0.08
		if k.Index%2 == 0 {
			p.PTextArg, p.PMovesArg, p.WPory, p.PAuto = 0.1, 0.05, 0, 0.1
			p.MaxDepth = 4
		}
		g := spec.NewGen(k.R, p)
		prog := g.FullProgram(1 + k.R.IntN(4))
		if k.R.IntN(5) == 0 {
			// a command argument that merely ENDS like a sub-label of its script (call(Npc_<script>_3)): not a reference to it
			blocks := collectBlocks(prog)
			for n := 0; n < 3 && len(blocks) > 0; n++ {
				bc := blocks[k.R.IntN(len(blocks))]
				if bc.single || bc.inPory {
					continue
				}
				c := &spec.Cmd{ID: prog.NewID(), Name: g.Name("cmd"), Args: []*spec.Arg{{Toks: []string{"1"}}, {Toks: []string{fmt.Sprintf("Npc_%s_%d", bc.script, 1+k.R.IntN(7))}}}}
				insertStmt(bc.b, k.R.IntN(safeLen(bc.b)+1), &spec.CmdStmt{Cmd: c})
			}
			k.Count("files_with_arguments_ending_like_sublabels", 1)
		}
		pr := layoutOf(k, prog, 0.15)
		k.SetSource(pr.Src)
		kk, probe := k.Dry()
		c05Eval(kk, prog, pr.Src, g.Cands(), ctx.N(6, 16))
		if len(probe.Keys) > 0 {
			// a violation: reduce the program first, then report with the reduced witness attached
			key := probe.Keys[0]
			msg := probe.Msgs[0]
			if msrc, mmsg := shrinkFor(k, prog, key, func(k2 *h.Case, src string) { c05Eval(k2, prog, src, g.Cands(), ctx.N(6, 16)) }); msrc != "" {
				msg += "\nreduced witness:\n" + msrc + "--- " + mmsg
				ro, rn := h.Compile(msrc, optsOf(prog, true)), h.Compile(msrc, optsOf(prog, false))
				k.Violation(key, msg, map[string]interface{}{"minimal_source": msrc, "minimal_optimized": ro.Out, "minimal_unoptimized": rn.Out})
			} else {
				k.Violation(key, msg, nil)
			}
			return
		}
		c05Eval(k, prog, pr.Src, g.Cands(), ctx.N(6, 16))
	})
	// names that imitate generated sub-labels are outside what most properties promise anything about - but whether
	// such a file compiles (and what the error is) must still not depend on -optimize
	ctx.RunCases("imitating-labels", ctx.N(1500, 60000), func(k *h.Case) {
		p := prof
		p.WPory = 0
		g := spec.NewGen(k.R, p)
		prog := g.FullProgram(1 + k.R.IntN(3))
		scs := scriptsOf(prog)
		if len(scs) == 0 {
			return
		}
		sc := scs[k.R.IntN(len(scs))]
		name := fmt.Sprintf("%s_%d", sc.Entry, k.R.IntN(9))
		blocks := collectBlocks(prog)
		var cands []blockCtx
		for _, bc := range blocks {
			if bc.script == sc.Entry && !bc.single {
				cands = append(cands, bc)
			}
		}
		if len(cands) == 0 {
			return
		}
		bc := cands[k.R.IntN(len(cands))]
		insertStmt(bc.b, k.R.IntN(safeLen(bc.b)+1), &spec.Label{ID: prog.NewID(), Name: name})
		src := spec.Source(prog)
		k.SetSource(src)
		ro, rn := h.Compile(src, optsOf(prog, true)), h.Compile(src, optsOf(prog, false))
		k.Count("evaluations", 2)
		if ro.Panic != nil || rn.Panic != nil {
			k.Violation("compiler-panic", fmt.Sprintf("panic: %v / %v", ro.Panic, rn.Panic), nil)
			return
		}
		if ro.OK() != rn.OK() {
			k.Violation("accept-differs", fmt.Sprintf("a label spelled like a generated sub-label (%s): optimize=true: %q, optimize=false: %q", name, ro.ErrString(), rn.ErrString()), nil)
			return
		}
		if !ro.OK() && ro.ErrString() != rn.ErrString() {
			k.Violation("error-differs", fmt.Sprintf("errors differ: optimize=true %q, optimize=false %q", ro.ErrString(), rn.ErrString()), nil)
			return
		}
		if ro.OK() {
			k.Count("imitating_label_accepted_in_both_modes", 1)
		} else {
			k.Count("imitating_label_rejected_in_both_modes", 1)
		}
		k.Nontrivial("imit", ro.OK(), len(src)/64)
	})
	rejectGuard(ctx, 0.35)
	return ctx.Finish(
		"whole files compiled twice (optimize on/off). Oracle: same acceptance/error; non-script parts identical; same user-visible labels with the same colon count; per script the multiset of instructions other than goto is identical; VM traces (tests, commands, terminal) from every script entry incl. inline map scripts equal under the same states; in either output no generated goto is followed by its own target label and every generated sub-label is referenced. distinct = distinct script body signature",
		ctx.N(500, 5000),
		[]string{"the first non-blank, non-marker line after a goto is taken as 'the very next line'", "a goto whose target the author wrote as goto(X) is not compiler-generated"})
}

// c05Eval applies the whole C05 oracle to one program text. It draws no
// randomness, so it can be re-run on a reduced program while shrinking.
func c05Eval(k *h.Case, prog *spec.Program, src string, cands []int, nStates int) {
	rp, rerr := spec.Resolve(prog, prog.Switches)
	g := struct{ cands []int }{cands}
	ro := h.Compile(src, optsOf(prog, true))
	rn := h.Compile(src, optsOf(prog, false))
	k.Count("evaluations", 2)
	if ro.OK() != rn.OK() {
		k.Violation("accept-differs", fmt.Sprintf("optimize=true: %q, optimize=false: %q", ro.ErrString(), rn.ErrString()), nil)
		return
	}
	if !ro.OK() {
		k.Count("rejected", 1)
		rejectedValid(k, prog, ro, true)
		if ro.ErrString() != rn.ErrString() {
			k.Violation("error-differs", fmt.Sprintf("errors differ: optimize=true %q, optimize=false %q", ro.ErrString(), rn.ErrString()), nil)
		}
		return
	}
	if rerr != nil {
		acceptedUnmatched(k)
		return
	}
	k.Count("accepted", 1)
	vo, err1 := viewOf(rp, ro.Out)
	vn, err2 := viewOf(rp, rn.Out)
	if err1 != nil || err2 != nil {
		k.Violation("entry-label", fmt.Sprintf("%v / %v", err1, err2), map[string]interface{}{"optimized": ro.Out, "unoptimized": rn.Out})
		return
	}
	det := map[string]interface{}{"optimized": ro.Out, "unoptimized": rn.Out}
	// (b) data and user-visible labels
	if a, b := vo.nonScriptText(), vn.nonScriptText(); a != b {
		k.Violation("data-differs", "text/movement/mart/map-script tables/raw differ between optimize on and off", det)
		return
	}
	if a, b := userVisibleLabels(vo, rp), userVisibleLabels(vn, rp); !eqStrings(a, b) {
		k.Violation("labels-differ", fmt.Sprintf("user-visible labels differ: optimized %v, unoptimized %v", a, b), det)
		return
	}
	// (d), (e)
	if !redundancyCheck(k, rp, vo, ro.Out, "optimize=true") || !redundancyCheck(k, rp, vn, rn.Out, "optimize=false") {
		return
	}
	gotoO, gotoN := 0, 0
	for _, s := range scriptsOf(rp) {
		so, sn := vo.secs[s.Entry], vn.secs[s.Entry]
		// (c)
		if a, b := instrMultiset(vo, so), instrMultiset(vn, sn); !eqStrings(a, b) {
			k.Violation("instr-multiset", fmt.Sprintf("script %s: instructions other than goto differ between optimize on and off\n optimized:   %v\n unoptimized: %v", s.Entry, a, b), det)
			return
		}
		for i := so.Start; i < so.End; i++ {
			if vo.f.Lines[i].Op == "goto" {
				gotoO++
			}
		}
		for i := sn.Start; i < sn.End; i++ {
			if vn.f.Lines[i].Op == "goto" {
				gotoN++
			}
		}
		// (a) behaviour
		ut := userTargetsOf(rp)
		vmo := &asm.VM{F: vo.f, Sec: so, UserTargets: ut}
		vmn := &asm.VM{F: vn.f, Sec: sn, UserTargets: ut}
		for si := 0; si < nStates; si++ {
			st := &ref.HashState{Seed: h.Hash64(k.C.Seed, k.Sub, k.Index, s.Entry, si), Cands: g.cands}
			to, tn := vmo.Run(st), vmn.Run(st)
			k.Count("vm_runs", 2)
			a, b := normFull(to), normFull(tn)
			if !eqStrings(a, b) || len(to.Problems)+len(tn.Problems) > 0 {
				k.Violation("behaviour-differs", fmt.Sprintf("script %s state %d: optimized and unoptimized outputs behave differently\n optimized:   %s\n unoptimized: %s", s.Entry, si, strings.Join(a, " ; "), strings.Join(b, " ; ")), det)
				return
			}
		}
		if sh := shapeOfBlock(s.Body); len(sh) > 4 {
			k.Nontrivial(sh)
		}
	}
	k.Count("gotos_optimized", int64(gotoO))
	k.Count("gotos_unoptimized", int64(gotoN))
	if ro.Out != rn.Out {
		k.Count("pairs_with_different_layout", 1)
	}
	k.Sample("pair", map[string]interface{}{"source": src})
}
