package checks

import (
	"fmt"
	"regexp"
	"strings"

	"verif.local/pvmon/internal/asm"
	"verif.local/pvmon/internal/h"
	"verif.local/pvmon/internal/spec"
)

func init() { Registry["C15"] = runC15 }

var rawLabelRe = regexp.MustCompile(`^([^\s:"]+)(::?)$`)

func scopeGlobal(scope int, defGlobal bool) bool {
	switch scope {
	case spec.ScopeGlobal:
		return true
	case spec.ScopeLocal:
		return false
	}
	return defGlobal
}

// expectedScopes maps every label the author wrote to whether it must be exported.
func expectedScopes(p *spec.Program) (map[string]bool, map[string]string) {
	want := map[string]bool{}
	kind := map[string]string{}
	var labels func(b *spec.Block)
	labels = func(b *spec.Block) {
		if b == nil {
			return
		}
		for _, st := range b.Stmts {
			switch x := st.(type) {
			case *spec.Label:
				want[x.Name] = x.Scope == spec.ScopeGlobal
				kind[x.Name] = fmt.Sprintf("label-statement/scope%d", x.Scope)
			case *spec.If:
				for _, a := range x.Arms {
					labels(a.Body)
				}
				labels(x.Else)
			case *spec.While:
				labels(x.Body)
			case *spec.DoWhile:
				labels(x.Body)
			case *spec.Switch:
				for _, c := range x.Cases {
					labels(c.Body)
				}
			}
		}
	}
	for _, it := range p.Items {
		switch x := it.(type) {
		case *spec.Script:
			want[x.Name] = scopeGlobal(x.Scope, true)
			kind[x.Name] = fmt.Sprintf("script/scope%d", x.Scope)
			labels(x.Body)
		case *spec.TextItem:
			want[x.Name] = scopeGlobal(x.Scope, true)
			kind[x.Name] = fmt.Sprintf("text/scope%d", x.Scope)
		case *spec.MovementItem:
			want[x.Name] = scopeGlobal(x.Scope, false)
			kind[x.Name] = fmt.Sprintf("movement/scope%d", x.Scope)
		case *spec.MartItem:
			want[x.Name] = scopeGlobal(x.Scope, false)
			kind[x.Name] = fmt.Sprintf("mart/scope%d", x.Scope)
		case *spec.MapScripts:
			want[x.Name] = scopeGlobal(x.Scope, true)
			kind[x.Name] = fmt.Sprintf("mapscripts/scope%d", x.Scope)
			for _, e := range x.Entries {
				labels(e.Body)
				for _, r := range e.Rows {
					labels(r.Body)
				}
			}
		case *spec.Raw:
			for _, ln := range x.Lines {
				if m := rawLabelRe.FindStringSubmatch(ln); m != nil {
					want[m[1]] = m[2] == "::"
					kind[m[1]] = "raw"
				}
			}
		}
	}
	return want, kind
}

func runC15(ctx *h.Ctx) int {
	prof := profFull()
	prof.WLabel = 12
	ctx.RunCases("scopes", ctx.N(6000, 300000), func(k *h.Case) {
		g := spec.NewGen(k.R, prof)
		prog := g.FullProgram(1 + k.R.IntN(6))
		if k.R.IntN(4) == 0 {
			// names shaped like generated labels that clash with nothing (no script of the file is called like their
			// prefix): the scope rules apply to them like to any other name
			base := g.Name("Elsewhere")
			for _, it := range prog.Items {
				if k.R.IntN(2) != 0 {
					continue
				}
				switch x := it.(type) {
				case *spec.TextItem:
					x.Name = fmt.Sprintf("%s_Text_%d", base, k.R.IntN(4))
				case *spec.MovementItem:
					x.Name = fmt.Sprintf("%s_Movement_%d", base, k.R.IntN(4))
				case *spec.MartItem:
					x.Name = fmt.Sprintf("%s_%d", base, 10+k.R.IntN(4))
				}
				base = g.Name("Elsewhere")
			}
			k.Count("files_with_names_shaped_like_generated_labels", 1)
		}
		rp, rerr := spec.Resolve(prog, prog.Switches)
		pr := layoutOf(k, prog, 0.2)
		k.SetSource(pr.Src)
		res := h.Compile(pr.Src, optsOf(prog, k.R.IntN(2) == 0))
		k.Count("evaluations", 1)
		if !res.OK() || rerr != nil {
			k.Count("rejected", 1)
			if !res.OK() {
				rejectedValid(k, prog, res, false)
			} else {
				acceptedUnmatched(k)
			}
			return
		}
		k.Count("accepted", 1)
		f := asm.Parse(res.Out)
		want, kind := expectedScopes(rp)
		var sig []string
		for i := range f.Lines {
			l := &f.Lines[i]
			if l.Kind != asm.KLabel {
				continue
			}
			if g, written := want[l.Label]; written {
				if l.Global != g {
					k.Violation("written-scope", fmt.Sprintf("label %q (%s) is emitted as %q; expected exported=%v", l.Label, kind[l.Label], l.Text, g), map[string]interface{}{"output": res.Out})
					return
				}
				k.Count("written:"+kind[l.Label], 1)
				sig = append(sig, kind[l.Label])
			} else {
				if l.Global {
					k.Violation("generated-global", fmt.Sprintf("compiler-invented label %q is exported (%q)", l.Label, l.Text), map[string]interface{}{"output": res.Out})
					return
				}
				cls := "sub-label"
				switch {
				case strings.Contains(l.Label, "_Text_"):
					cls = "hoisted-text"
				case strings.Contains(l.Label, "_Movement_"):
					cls = "hoisted-movement"
				case strings.Contains(l.Label, "MAP_SCRIPT"):
					cls = "inline-map-script-or-table"
				}
				k.Count("generated:"+cls, 1)
			}
		}
		for name := range want {
			if len(f.Labels[name]) == 0 {
				k.Count("written_label_not_in_output", 1)
				k.Violation("written-label-missing", fmt.Sprintf("the name %q is written in the source but no label line of the output defines it (neither ':' nor '::')", name), map[string]interface{}{"output": res.Out})
				return
			}
		}
		k.Nontrivial(strings.Join(sig, ","))
		k.Sample("scopes", pr.Src)
	})
	rejectGuard(ctx, 0.35)
	return ctx.Finish(
		"whole files where every top-level statement kind carries no modifier, (global) or (local), label statements likewise, with sub-labels, hoisted text/movement, inline map scripts and tables. Oracle on every label line of the output: a name the author wrote is '::' iff its modifier says global, or it has none and the kind is script/text/mapscripts; label statements '::' iff (global); every label the author did not write is ':'. distinct = sequence of (kind, modifier) of the written labels in the output",
		ctx.N(500, 5000),
		[]string{"raw statement content is copied verbatim; its labels count as written by the author"})
}
