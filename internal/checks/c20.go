package checks

import (
	"errors"
	"fmt"
	"sort"
	"strings"

	"github.com/huderlem/poryscript/parser"

	"verif.local/pvmon/internal/asm"
	"verif.local/pvmon/internal/h"
	"verif.local/pvmon/internal/spec"
)

func init() { Registry["C20"] = runC20 }

type blockCtx struct {
	b      *spec.Block
	loop   bool // lexically inside a loop
	brk    bool // lexically inside a loop or switch
	single bool // colon-form poryswitch case: exactly one statement
	script string
	inPory bool // inside a poryswitch case (may not be selected)
}

// collectBlocks lists every statement block of the program with its context.
func collectBlocks(p *spec.Program) []blockCtx {
	var out []blockCtx
	inPory := 0
	var walk func(b *spec.Block, loop, brk, single bool, script string)
	walk = func(b *spec.Block, loop, brk, single bool, script string) {
		if b == nil {
			return
		}
		out = append(out, blockCtx{b: b, loop: loop, brk: brk, single: single, script: script, inPory: inPory > 0})
		for _, st := range b.Stmts {
			switch x := st.(type) {
			case *spec.If:
				for _, a := range x.Arms {
					walk(a.Body, loop, brk, false, script)
				}
				walk(x.Else, loop, brk, false, script)
			case *spec.While:
				walk(x.Body, true, true, false, script)
			case *spec.DoWhile:
				walk(x.Body, true, true, false, script)
			case *spec.Switch:
				for _, c := range x.Cases {
					walk(c.Body, loop, true, false, script)
				}
			case *spec.PorySwitch:
				inPory++
				for _, c := range x.Cases {
					walk(c.Body, loop, brk, !c.Brace, script)
				}
				inPory--
			}
		}
	}
	for _, it := range p.Items {
		switch x := it.(type) {
		case *spec.Script:
			walk(x.Body, false, false, false, x.Name)
		case *spec.MapScripts:
			for _, e := range x.Entries {
				if e.Body != nil {
					walk(e.Body, false, false, false, x.Name+"_"+e.Type)
				}
				for i, r := range e.Rows {
					if r.Body != nil {
						walk(r.Body, false, false, false, fmt.Sprintf("%s_%s_%d", x.Name, e.Type, i))
					}
				}
			}
		}
	}
	return out
}

// safeLen is the number of leading statements after which something may be
// inserted without following a `continue` (which must stay last).
func safeLen(b *spec.Block) int {
	n := len(b.Stmts)
	if n > 0 {
		if _, ok := b.Stmts[n-1].(*spec.Continue); ok {
			return n - 1
		}
	}
	return n
}

func insertStmt(b *spec.Block, at int, st ...spec.Stmt) {
	ns := append([]spec.Stmt{}, b.Stmts[:at]...)
	ns = append(ns, st...)
	b.Stmts = append(ns, b.Stmts[at:]...)
}

func allSwitches(p *spec.Program) []*spec.Switch {
	var out []*spec.Switch
	for _, bc := range collectBlocks(p) {
		for _, st := range bc.b.Stmts {
			if s, ok := st.(*spec.Switch); ok {
				out = append(out, s)
			}
		}
	}
	return out
}

// injection describes one injected violation: the node ids whose source range
// may carry the error.
type injection struct {
	kind string
	ids  []int
}

func inject(k *h.Case, g *spec.Gen, prog *spec.Program, baseOut string) *injection {
	r := k.R
	blocks := collectBlocks(prog)
	pickBlock := func(pred func(bc blockCtx) bool) *blockCtx {
		var c []int
		for i, bc := range blocks {
			if pred(bc) {
				c = append(c, i)
			}
		}
		if len(c) == 0 {
			return nil
		}
		return &blocks[c[r.IntN(len(c))]]
	}
	kinds := []string{"break-outside", "continue-outside", "continue-not-last", "duplicate-case", "duplicate-case-via-const", "second-default", "const-redefined", "text-clash", "movement-clash", "label-is-sublabel", "label-is-script-name", "label-is-text-label", "label-is-movement-label", "text-named-like-movement", "movement-named-like-text"}
	kind := kinds[k.Index%len(kinds)]
	switch kind {
	case "break-outside":
		bc := pickBlock(func(bc blockCtx) bool { return !bc.brk })
		if bc == nil {
			return nil
		}
		st := &spec.Break{ID: prog.NewID()}
		if bc.single {
			bc.b.Stmts = []spec.Stmt{st}
		} else {
			insertStmt(bc.b, r.IntN(safeLen(bc.b)+1), st)
		}
		return &injection{kind, []int{st.ID}}
	case "continue-outside":
		bc := pickBlock(func(bc blockCtx) bool { return !bc.loop && !bc.single })
		if bc == nil {
			return nil
		}
		st := &spec.Continue{ID: prog.NewID()}
		// as the last statement, so that only the scope rule is violated
		insertStmt(bc.b, len(bc.b.Stmts), st)
		return &injection{kind, []int{st.ID}}
	case "continue-not-last":
		bc := pickBlock(func(bc blockCtx) bool { return bc.loop && !bc.single })
		if bc == nil {
			return nil
		}
		st := &spec.Continue{ID: prog.NewID()}
		at := r.IntN(safeLen(bc.b) + 1)
		// what follows the continue: any kind of statement
		var follower spec.Stmt
		switch r.IntN(6) {
		case 0:
			follower = &spec.Label{ID: prog.NewID(), Name: g.Name("Lbl")}
		case 1:
			follower = &spec.Label{ID: prog.NewID(), Name: g.Name("Lbl"), Scope: 1 + r.IntN(2)}
		case 2:
			follower = &spec.Break{ID: prog.NewID()}
		case 3:
			follower = &spec.If{ID: prog.NewID(), Arms: []*spec.Arm{{Cond: g.LeafCond(), Body: &spec.Block{ID: prog.NewID()}}}}
		case 4:
			follower = &spec.CmdStmt{Cmd: &spec.Cmd{ID: prog.NewID(), Name: g.Name("cmd")}}
		default:
			follower = &spec.CmdStmt{Cmd: g.Cmd()}
		}
		insertStmt(bc.b, at, st, follower)
		return &injection{kind, []int{st.ID}}
	case "duplicate-case", "duplicate-case-via-const", "second-default":
		sws := allSwitches(prog)
		if len(sws) == 0 {
			return nil
		}
		sw := sws[r.IntN(len(sws))]
		// a case cannot be appended when the last body ends in `continue` (it must stay before the `}`)
		if lc := sw.Cases[len(sw.Cases)-1]; safeLen(lc.Body) != len(lc.Body.Stmts) {
			return nil
		}
		nc := &spec.Case{ID: prog.NewID(), Body: &spec.Block{ID: prog.NewID()}}
		if r.IntN(2) == 0 {
			nc.Body.Stmts = []spec.Stmt{&spec.CmdStmt{Cmd: g.Cmd()}}
		}
		if kind == "second-default" {
			has := false
			for _, c := range sw.Cases {
				if c.Default {
					has = true
				}
			}
			if !has {
				sw.Cases = append(sw.Cases, &spec.Case{ID: prog.NewID(), Default: true, Body: &spec.Block{ID: prog.NewID()}})
			}
			nc.Default = true
		} else {
			var vals [][]string
			for _, c := range sw.Cases {
				if !c.Default {
					vals = append(vals, c.Value)
				}
			}
			if len(vals) == 0 {
				return nil
			}
			v := vals[r.IntN(len(vals))]
			if kind == "duplicate-case-via-const" {
				name := g.Name("DUP_")
				prog.Items = append([]spec.Item{&spec.Const{ID: prog.NewID(), Name: name, Value: v}}, prog.Items...)
				nc.Value = []string{"$" + name}
			} else {
				nc.Value = v
			}
		}
		// the later of two equal entries is the offending one: append after the existing cases
		// (not possible when the last body ends in `continue`, which must stay before the `}`)
		if lc := sw.Cases[len(sw.Cases)-1]; safeLen(lc.Body) != len(lc.Body.Stmts) {
			return nil
		}
		at := len(sw.Cases)
		cs := append([]*spec.Case{}, sw.Cases[:at]...)
		cs = append(cs, nc)
		sw.Cases = append(cs, sw.Cases[at:]...)
		return &injection{kind, []int{nc.ID}}
	case "const-redefined":
		name := g.Name("CONST_")
		c1 := &spec.Const{ID: prog.NewID(), Name: name, Value: []string{"1"}}
		c2 := &spec.Const{ID: prog.NewID(), Name: name, Value: []string{"2"}}
		if r.IntN(3) == 0 {
			// redefined with the very same value: a redefinition all the same
			c1.Value = []string{[]string{"1", "FLAG_TEMP_1", "VAR_A + 1"}[r.IntN(3)]}
			c2.Value = c1.Value
		}
		i1 := r.IntN(len(prog.Items) + 1)
		items := append([]spec.Item{}, prog.Items[:i1]...)
		items = append(items, c1)
		items = append(items, prog.Items[i1:]...)
		i2 := i1 + 1 + r.IntN(len(items)-i1)
		items2 := append([]spec.Item{}, items[:i2]...)
		items2 = append(items2, c2)
		prog.Items = append(items2, items[i2:]...)
		return &injection{kind, []int{c2.ID}}
	case "text-clash", "movement-clash", "label-is-text-label", "label-is-movement-label", "text-named-like-movement", "movement-named-like-text":
		rp, err := spec.Resolve(prog, prog.Switches)
		if err != nil {
			return nil
		}
		lm := buildLabelModel(rp)
		if lm.Err != nil {
			return nil
		}
		at := r.IntN(len(prog.Items) + 1)
		addItem := func(it spec.Item) {
			items := append([]spec.Item{}, prog.Items[:at]...)
			items = append(items, it)
			prog.Items = append(items, prog.Items[at:]...)
		}
		switch kind {
		case "text-named-like-movement":
			// across the two families: a text statement named like a hoisted movement label
			if len(lm.Moves) == 0 {
				return nil
			}
			m := lm.Moves[r.IntN(len(lm.Moves))]
			it := &spec.TextItem{ID: prog.NewID(), Name: m.Label, Scope: r.IntN(3), Val: &spec.TextVal{ID: prog.NewID(), Parts: []string{"user text"}}}
			addItem(it)
			// (the offending construct is the statement whose name equals a generated one, not the command that holds
			// the generated value)
			return &injection{kind, []int{it.ID}}
		case "movement-named-like-text":
			if len(lm.Texts) == 0 {
				return nil
			}
			t := lm.Texts[r.IntN(len(lm.Texts))]
			it := &spec.MovementItem{ID: prog.NewID(), Name: t.Label, Steps: []*spec.ListElem{{ID: prog.NewID(), Name: "walk_up"}}}
			addItem(it)
			return &injection{kind, []int{it.ID}}
		case "text-clash":
			if len(lm.Texts) == 0 {
				return nil
			}
			t := lm.Texts[r.IntN(len(lm.Texts))]
			it := &spec.TextItem{ID: prog.NewID(), Name: t.Label, Val: &spec.TextVal{ID: prog.NewID(), Parts: []string{"user text"}}}
			addItem(it)
			return &injection{kind, []int{it.ID}}
		case "movement-clash":
			if len(lm.Moves) == 0 {
				return nil
			}
			m := lm.Moves[r.IntN(len(lm.Moves))]
			it := &spec.MovementItem{ID: prog.NewID(), Name: m.Label, Steps: []*spec.ListElem{{ID: prog.NewID(), Name: "walk_up"}}}
			addItem(it)
			// (the offending construct is the statement whose name equals a generated one, not the command that holds
			// the generated value)
			return &injection{kind, []int{it.ID}}
		case "label-is-movement-label":
			// a label equal to one of the hoisted movement labels of the script it is written in
			var cands []blockCtx
			for _, bc := range blocks {
				if bc.single || bc.inPory {
					continue
				}
				for _, m := range lm.Moves {
					if strings.HasPrefix(m.Label, bc.script+"_Movement_") {
						cands = append(cands, bc)
						break
					}
				}
			}
			if len(cands) == 0 {
				return nil
			}
			bc := cands[r.IntN(len(cands))]
			var names []string
			for _, m := range lm.Moves {
				if strings.HasPrefix(m.Label, bc.script+"_Movement_") {
					names = append(names, m.Label)
				}
			}
			st := &spec.Label{ID: prog.NewID(), Name: names[r.IntN(len(names))]}
			insertStmt(bc.b, r.IntN(safeLen(bc.b)+1), st)
			return &injection{kind, []int{st.ID}}
		default:
			if scs := scriptsOf(prog); len(scs) >= 2 && r.IntN(3) == 0 {
				// a text statement spelled like a sub-label of an EARLIER script, and that name as a label
				// statement in a later script: still "a script label equal to a text label"
				si := r.IntN(len(scs) - 1)
				later := scs[si+1+r.IntN(len(scs)-si-1)]
				name := fmt.Sprintf("%s_%d", scs[si].Entry, 1+r.IntN(6))
				var cands []blockCtx
				for _, bc := range blocks {
					if bc.script == later.Entry && !bc.single && !bc.inPory {
						cands = append(cands, bc)
					}
				}
				if len(cands) > 0 {
					it := &spec.TextItem{ID: prog.NewID(), Name: name, Val: &spec.TextVal{ID: prog.NewID(), Parts: []string{"user text"}}}
					addItem(it)
					bc := cands[r.IntN(len(cands))]
					st := &spec.Label{ID: prog.NewID(), Name: name}
					insertStmt(bc.b, r.IntN(safeLen(bc.b)+1), st)
					k.Count("text_named_like_sublabel_of_other_script", 1)
					return &injection{kind, []int{st.ID}}
				}
			}
			var names []string
			for _, t := range lm.Texts {
				names = append(names, t.Label)
			}
			for _, it := range prog.Items {
				if t, ok := it.(*spec.TextItem); ok {
					names = append(names, t.Name)
				}
			}
			bc := pickBlock(func(bc blockCtx) bool { return !bc.single && !bc.inPory })
			if len(names) == 0 || bc == nil {
				return nil
			}
			st := &spec.Label{ID: prog.NewID(), Name: names[r.IntN(len(names))]}
			insertStmt(bc.b, r.IntN(safeLen(bc.b)+1), st)
			return &injection{kind, []int{st.ID}}
		}
	case "label-is-sublabel", "label-is-script-name":
		// only scripts whose poryswitches are not involved: use top-level blocks of real scripts
		f := asm.Parse(baseOut)
		var cands []blockCtx
		for _, bc := range blocks {
			if !bc.single && !bc.inPory {
				cands = append(cands, bc)
			}
		}
		if len(cands) == 0 {
			return nil
		}
		bc := cands[r.IntN(len(cands))]
		name := bc.script
		if kind == "label-is-sublabel" {
			var subs []string
			for l := range f.Labels {
				if strings.HasPrefix(l, bc.script+"_") {
					rest := l[len(bc.script)+1:]
					if rest != "" && strings.Trim(rest, "0123456789") == "" {
						subs = append(subs, l)
					}
				}
			}
			if len(subs) == 0 {
				return nil
			}
			// (deterministic order; one time in three the highest-numbered sub-label, the last chunk of the script)
			sort.Slice(subs, func(i, j int) bool {
				if len(subs[i]) != len(subs[j]) {
					return len(subs[i]) < len(subs[j])
				}
				return subs[i] < subs[j]
			})
			name = subs[r.IntN(len(subs))]
			if r.IntN(3) == 0 {
				name = subs[len(subs)-1]
			}
		}
		st := &spec.Label{ID: prog.NewID(), Name: name}
		insertStmt(bc.b, r.IntN(safeLen(bc.b)+1), st)
		return &injection{kind, []int{st.ID}}
	}
	return nil
}

func runC20(ctx *h.Ctx) int {
	prof := profFull()
	prof.WLabel = 4
	prof.WSwitch = 14
	prof.PTextArg, prof.PMovesArg = 0.3, 0.2
	ctx.RunCases("injected-violations", ctx.N(9600, 480000), func(k *h.Case) {
		g := spec.NewGen(k.R, prof)
		prog := g.FullProgram(1 + k.R.IntN(4))
		if k.R.IntN(5) == 0 {
			// a switch given with an empty value (-s KEY=): selects the '_' cases
			if keys := sortedStringKeys(prog.Switches); len(keys) > 0 {
				prog.Switches[keys[k.R.IntN(len(keys))]] = ""
			}
			k.Count("files_with_empty_switch_value", 1)
		}
		base := h.Compile(spec.Source(prog), optsOf(prog, true))
		k.Count("evaluations", 1)
		if !base.OK() {
			k.Count("base_rejected", 1)
			k.Count("base_rejected: "+rejectFamily(base.ErrString()), 1)
			rejectedValid(k, prog, base, false)
			return
		}
		inj := inject(k, g, prog, base.Out)
		if inj == nil {
			k.Count("no_injection_site", 1)
			return
		}
		pr := layoutOf(k, prog, 0.7)
		k.SetSource(pr.Src)
		res := h.Compile(pr.Src, optsOf(prog, k.R.IntN(2) == 0))
		k.Count("evaluations", 1)
		if res.Panic != nil {
			k.Violation("panic:"+inj.kind, fmt.Sprintf("[%s] panic instead of an error: %v", inj.kind, res.Panic), nil)
			return
		}
		if res.Err == nil {
			k.Violation("accepted:"+inj.kind, fmt.Sprintf("[%s] the ill-formed program was compiled instead of being rejected", inj.kind), map[string]interface{}{"output": res.Out})
			return
		}
		var pe parser.ParseError
		if !errors.As(res.Err, &pe) {
			k.Violation("unlocated:"+inj.kind, fmt.Sprintf("[%s] rejected, but the error carries no line: %v", inj.kind, res.Err), nil)
			return
		}
		ok := false
		var ranges []string
		for _, id := range inj.ids {
			a, b, found := pr.LineRange(id)
			if !found {
				continue
			}
			ranges = append(ranges, fmt.Sprintf("%d..%d", a, b))
			if pe.LineNumberStart >= a && pe.LineNumberStart <= b {
				ok = true
			}
		}
		if !ok {
			k.Violation("wrong-line:"+inj.kind, fmt.Sprintf("[%s] error %q is reported on line %d, but the offending construct is on line(s) %s", inj.kind, pe.Message, pe.LineNumberStart, strings.Join(ranges, " or ")), nil)
			return
		}
		k.Count("rejected_at_line:"+inj.kind, 1)
		k.Count("error: "+rejectFamily(pe.Message), 1)
		k.Nontrivial(inj.kind, pe.LineNumberStart, len(pr.Src)/16)
		k.Sample(inj.kind, map[string]interface{}{"source": pr.Src, "error": pe.Error()})
	})
	// stale-scope probe: after ANY valid file a fresh script whose body is a bare break / continue (also inside
	// an if, a poryswitch case, an inline map script) must be rejected on that line: no construct before it may
	// leave a loop or switch scope open
	ctx.RunCases("stale-scope-probe", ctx.N(2400, 120000), func(k *h.Case) {
		g := spec.NewGen(k.R, prof)
		prog := g.FullProgram(1 + k.R.IntN(4))
		pr := layoutOf(k, prog, 0.5)
		base := h.Compile(pr.Src, optsOf(prog, true))
		k.Count("evaluations", 1)
		if !base.OK() {
			k.Count("base_rejected", 1)
			rejectedValid(k, prog, base, false)
			return
		}
		word := []string{"break", "continue"}[k.R.IntN(2)]
		nl := "\n"
		if strings.Contains(pr.Src, "\r\n") {
			nl = "\r\n"
		}
		var tail string
		var probeLine int // 0-based offset of the offending word inside tail
		switch k.R.IntN(5) {
		case 0:
			tail = "script ProbeScr {" + nl + word + nl + "}" + nl
			probeLine = 1
		case 1:
			tail = "script ProbeScr {" + nl + "lock" + nl + "if (flag(FLAG_PROBE)) {" + nl + word + nl + "}" + nl + "}" + nl
			probeLine = 3
		case 2:
			tail = "mapscripts ProbeMap {" + nl + "MAP_SCRIPT_ON_LOAD {" + nl + word + nl + "}" + nl + "}" + nl
			probeLine = 2
		case 3:
			tail = "script ProbeScr {" + nl + "lock" + nl + "ProbeLbl:" + nl + word + nl + "}" + nl
			probeLine = 3
		default:
			tail = "script ProbeScr { " + word + " }" + nl
			probeLine = 0
		}
		src := pr.Src
		if !strings.HasSuffix(src, "\n") {
			src += nl
		}
		at := strings.Count(src, "\n") + 1 + probeLine
		src += tail
		k.SetSource(src)
		res := h.Compile(src, optsOf(prog, k.R.IntN(2) == 0))
		k.Count("evaluations", 1)
		if res.Panic != nil {
			k.Violation("probe-panic:"+word, fmt.Sprintf("panic instead of an error: %v", res.Panic), nil)
			return
		}
		if res.Err == nil {
			k.Violation("probe-accepted:"+word, fmt.Sprintf("a bare '%s' in a fresh script appended to a valid file was compiled instead of being rejected (a scope opened earlier in the file is still open)", word), map[string]interface{}{"appended": tail, "output": res.Out})
			return
		}
		var pe parser.ParseError
		if !errors.As(res.Err, &pe) || pe.LineNumberStart != at {
			k.Violation("probe-wrong-line:"+word, fmt.Sprintf("the appended '%s' is on line %d; reported: %v", word, at, res.Err), map[string]interface{}{"appended": tail})
			return
		}
		k.Count("probe_rejected_at_line:"+word, 1)
		k.Nontrivial("probe", word, at, len(prog.Items))
	})
	return ctx.Finish(
		"valid generated files with exactly one injected violation at a random position under scrambled layouts: break outside loop/switch (incl. inline map scripts, poryswitch cases, after a closed loop), continue outside a loop (incl. in a switch outside loops), continue not last in its block, duplicate case value (literal and via a constant), second default, redefined constant, text/movement statement named like a generated label, label statement equal to a generated sub-label of its script / the script's own name / a text label / one of the script's hoisted movement labels (anywhere, incl. unreachable code). Oracle: the result is an error (never output), it is a located error, and its start line lies inside the offending construct's source line range (for a text / movement statement named like a generated label: that statement, not the command holding the inline value; for two user definitions: either). Plus the stale-scope probe: a fresh script / inline map script with a bare break or continue appended to any valid file must be rejected on that very line. distinct = (kind, error line, source length / 16)",
		ctx.N(500, 5000),
		[]string{"the base program (before injection) compiles; the injected construct is the only violation"})
}

func sortedStringKeys(m map[string]string) []string {
	out := make([]string, 0, len(m))
	for k := range m {
		out = append(out, k)
	}
	sort.Strings(out)
	return out
}
