package checks

import (
	"fmt"
	"strconv"
	"strings"

	"verif.local/pvmon/internal/asm"
	"verif.local/pvmon/internal/h"
	"verif.local/pvmon/internal/ref"
	"verif.local/pvmon/internal/spec"
)

func init() { Registry["C02"] = runC02 }

// shape is a condition skeleton: 'l' leaf, 'p' redundant parentheses, 'n'
// negated group, 'a' and, 'o' or.
type shape struct {
	kind byte
	kids []*shape
}

func (s *shape) String() string {
	switch s.kind {
	case 'l':
		return "l"
	case 'p':
		return "(" + s.kids[0].String() + ")"
	case 'n':
		return "!(" + s.kids[0].String() + ")"
	}
	var parts []string
	for _, k := range s.kids {
		parts = append(parts, k.String())
	}
	op := "&"
	if s.kind == 'o' {
		op = "|"
	}
	return "[" + strings.Join(parts, op) + "]"
}

func (s *shape) build(mk func() spec.Cond) spec.Cond {
	switch s.kind {
	case 'l':
		return mk()
	case 'p':
		return &spec.Paren{X: s.kids[0].build(mk)}
	case 'n':
		return &spec.Not{X: s.kids[0].build(mk)}
	case 'a':
		c := &spec.And{}
		for _, k := range s.kids {
			c.Xs = append(c.Xs, k.build(mk))
		}
		return c
	default:
		c := &spec.Or{}
		for _, k := range s.kids {
			c.Xs = append(c.Xs, k.build(mk))
		}
		return c
	}
}

func compositions(n, minParts int) [][]int {
	var out [][]int
	var rec func(rem int, cur []int)
	rec = func(rem int, cur []int) {
		if rem == 0 {
			if len(cur) >= minParts {
				out = append(out, append([]int{}, cur...))
			}
			return
		}
		for k := 1; k <= rem; k++ {
			rec(rem-k, append(cur, k))
		}
	}
	rec(n, nil)
	return out
}

var shapeMemo = map[[2]int][]*shape{}

// enumShapes lists every condition skeleton with exactly n leaves.
// leafForms: 0 = bare leaves; 1 = also single leaves in redundant parentheses;
// 2 = also negated groups around one leaf, around a negation and around
// redundant parentheses (!(l), !(!(l)), !((l))).
func enumShapes(n int, leafForms int) []*shape {
	key := [2]int{n, leafForms}
	if r, ok := shapeMemo[key]; ok {
		return r
	}
	var out []*shape
	if n == 1 {
		leaf := func() *shape { return &shape{kind: 'l'} }
		out = append(out, leaf())
		if leafForms >= 1 {
			out = append(out, &shape{kind: 'p', kids: []*shape{leaf()}})
		}
		if leafForms >= 2 {
			out = append(out, &shape{kind: 'n', kids: []*shape{leaf()}},
				&shape{kind: 'n', kids: []*shape{{kind: 'n', kids: []*shape{leaf()}}}},
				&shape{kind: 'n', kids: []*shape{{kind: 'p', kids: []*shape{leaf()}}}})
		}
		shapeMemo[key] = out
		return out
	}
	for _, op := range []byte{'a', 'o'} {
		for _, comp := range compositions(n, 2) {
			lists := make([][]*shape, len(comp))
			for i, m := range comp {
				lists[i] = enumShapes(m, leafForms)
			}
			var rec func(i int, cur []*shape)
			rec = func(i int, cur []*shape) {
				if i == len(lists) {
					s := &shape{kind: op, kids: append([]*shape{}, cur...)}
					out = append(out, s, &shape{kind: 'n', kids: []*shape{s}})
					return
				}
				for _, c := range lists[i] {
					rec(i+1, append(cur, c))
				}
			}
			rec(0, nil)
		}
	}
	shapeMemo[key] = out
	return out
}

func condLeaves(c spec.Cond, out *[]*spec.Leaf) {
	switch x := c.(type) {
	case *spec.And:
		for _, k := range x.Xs {
			condLeaves(k, out)
		}
	case *spec.Or:
		for _, k := range x.Xs {
			condLeaves(k, out)
		}
	case *spec.Not:
		condLeaves(x.X, out)
	case *spec.Paren:
		condLeaves(x.X, out)
	case *spec.Leaf:
		*out = append(*out, x)
	}
}

func shapeOfCond(c spec.Cond) string {
	b := &spec.Block{Stmts: []spec.Stmt{&spec.If{Arms: []*spec.Arm{{Cond: c, Body: &spec.Block{}}}}}}
	return shapeOfBlock(b)
}

func marker(g *spec.Gen, name string) spec.Stmt {
	return &spec.CmdStmt{Cmd: &spec.Cmd{ID: g.Prog.NewID(), Name: g.Name(name)}}
}

// condProgram wraps a condition in one of the conditional constructs.
func condProgram(g *spec.Gen, c spec.Cond, variant int) (*spec.Program, []*spec.Leaf) {
	blk := func(ss ...spec.Stmt) *spec.Block { return &spec.Block{ID: g.Prog.NewID(), Stmts: ss} }
	var body []spec.Stmt
	var extra []*spec.Leaf
	switch variant % 5 {
	case 0:
		body = []spec.Stmt{&spec.If{ID: g.Prog.NewID(), Arms: []*spec.Arm{{Cond: c, Body: blk(marker(g, "yes"))}}, Else: blk(marker(g, "no"))}, marker(g, "after")}
	case 1:
		z := &spec.Leaf{ID: g.Prog.NewID(), Kind: spec.LeafFlag, Operand: []string{g.Name("FLAG_Z")}}
		extra = append(extra, z)
		body = []spec.Stmt{&spec.If{ID: g.Prog.NewID(), Arms: []*spec.Arm{{Cond: z, Body: blk(marker(g, "first"))}, {Cond: c, Body: blk(marker(g, "yes"))}}, Else: blk(marker(g, "no"))}, marker(g, "after")}
	case 2:
		body = []spec.Stmt{&spec.While{ID: g.Prog.NewID(), Cond: c, Body: blk(marker(g, "body"))}, marker(g, "after")}
	case 3:
		body = []spec.Stmt{&spec.DoWhile{ID: g.Prog.NewID(), Body: blk(marker(g, "body")), Cond: c}, marker(g, "after")}
	case 4:
		body = []spec.Stmt{marker(g, "before"), &spec.If{ID: g.Prog.NewID(), Arms: []*spec.Arm{{Cond: c, Body: blk(marker(g, "yes"), &spec.CmdStmt{Cmd: &spec.Cmd{ID: g.Prog.NewID(), Name: "end"}})}}}, marker(g, "after")}
	}
	s := &spec.Script{ID: g.Prog.NewID(), Name: g.Name("Scr"), Body: blk(body...)}
	g.Prog.Items = append(g.Prog.Items, s)
	var leaves []*spec.Leaf
	leaves = append(leaves, extra...)
	condLeaves(c, &leaves)
	return g.Prog, leaves
}

// truthTable enumerates (or samples) assignments for the leaves and calls fn.
func truthTable(k *h.Case, prog *spec.Program, leaves []*spec.Leaf, maxFull int, fn func(st *ref.TableState, desc string) bool) (exhaustive bool, n int) {
	type dom struct {
		kind string
		name string
		vals []int
	}
	var doms []dom
	for _, l := range leaves {
		switch l.Kind {
		case spec.LeafFlag:
			doms = append(doms, dom{"f", strings.Join(l.Operand, " "), []int{0, 1}})
		case spec.LeafDefeated:
			doms = append(doms, dom{"t", strings.Join(l.Operand, " "), []int{0, 1}})
		default:
			name := strings.Join(l.Operand, " ")
			if l.Kind == spec.LeafAuto {
				name = ref.AutoVarName(l.Auto, prog.AutoVars)
			}
			v := 0
			if l.Op != "" {
				v = spec.ValueInt(strings.Join(spec.RawValueToks(l), " "))
			}
			doms = append(doms, dom{"v", name, []int{v - 1, v, v + 1}})
		}
	}
	// leaves that test the same operand share one domain: the union of their value neighbourhoods
	merged := doms[:0]
	at := map[string]int{}
	for _, d := range doms {
		if i, ok := at[d.kind+"\x00"+d.name]; ok {
			for _, v := range d.vals {
				seen := false
				for _, w := range merged[i].vals {
					seen = seen || w == v
				}
				if !seen {
					merged[i].vals = append(merged[i].vals, v)
				}
			}
			continue
		}
		at[d.kind+"\x00"+d.name] = len(merged)
		merged = append(merged, d)
	}
	doms = merged
	total := 1
	for _, d := range doms {
		total *= len(d.vals)
		if total > 1<<20 {
			break
		}
	}
	mk := func(pick func(i int) int) (*ref.TableState, string) {
		st := &ref.TableState{Flags: map[string]bool{}, Trainers: map[string]bool{}, Vars: map[string]int{}}
		var sb strings.Builder
		for i, d := range doms {
			v := d.vals[pick(i)]
			switch d.kind {
			case "f":
				st.Flags[d.name] = v == 1
			case "t":
				st.Trainers[d.name] = v == 1
			default:
				st.Vars[d.name] = v
			}
			fmt.Fprintf(&sb, "%s=%d ", d.name, v)
		}
		return st, sb.String()
	}
	if total <= maxFull {
		idx := make([]int, len(doms))
		for {
			st, desc := mk(func(i int) int { return idx[i] })
			n++
			if !fn(st, desc) {
				return true, n
			}
			j := 0
			for ; j < len(idx); j++ {
				idx[j]++
				if idx[j] < len(doms[j].vals) {
					break
				}
				idx[j] = 0
			}
			if j == len(idx) {
				return true, n
			}
		}
	}
	for s := 0; s < maxFull; s++ {
		st, desc := mk(func(i int) int { return k.R.IntN(len(doms[i].vals)) })
		n++
		if !fn(st, desc) {
			return false, n
		}
	}
	return false, n
}

// checkCondProgram compiles the program with both optimize settings and
// compares full traces (queries, commands, terminal) over the truth table.
func checkCondProgram(k *h.Case, prog *spec.Program, leaves []*spec.Leaf, maxFull int, keyFn func(string) string) bool {
	pr := layoutOf(k, prog, 0.15)
	k.SetSource(pr.Src)
	lm := buildLabelModel(prog)
	sc := scriptsOf(prog)[0]
	for _, opt := range []bool{true, false} {
		res := h.Compile(pr.Src, optsOf(prog, opt))
		k.Count("evaluations", 1)
		if !res.OK() {
			k.Count("rejected", 1)
			k.Count("rejected: "+rejectFamily(res.ErrString()), 1)
			rejectedValid(k, prog, res, false)
			return false
		}
		k.Count("accepted", 1)
		f := asm.Parse(res.Out)
		sec, err := f.SectionOf(sc.Entry, boundaryOf(prog, f))
		if err != nil {
			k.Violation("entry-label", err.Error(), map[string]interface{}{"output": res.Out})
			return false
		}
		in := ref.New(sc.Body, prog.AutoVars)
		in.Render = lm.renderCmd
		vm := &asm.VM{F: f, Sec: sec, UserTargets: userTargetsOf(prog)}
		bad := false
		outcomes := map[string]bool{}
		ex, n := truthTable(k, prog, leaves, maxFull, func(st *ref.TableState, desc string) bool {
			rt, vt := in.Run(st), vm.Run(st)
			k.Count("vm_runs", 1)
			a, b := normFull(rt), normFull(vt)
			outcomes[strings.Join(rt.Cmds(), ";")] = true
			if len(vt.Problems) > 0 || !eqStrings(a, b) {
				msg := fmt.Sprintf("[optimize=%v] assignment %s: ", opt, desc)
				if len(vt.Problems) > 0 {
					msg += "VM problem: " + strings.Join(vt.Problems, "; ") + "\n"
				}
				msg += diffTraces(a, b)
				key := ""
				if keyFn != nil {
					key = keyFn(msg)
				}
				k.Violation(key, msg, map[string]interface{}{"output": res.Out})
				bad = true
				return false
			}
			return true
		})
		if bad {
			return false
		}
		if ex {
			k.Count("complete_truth_tables", 1)
		} else {
			k.Count("sampled_truth_tables", 1)
		}
		k.Count("assignments", int64(n))
		k.Count("distinct_outcomes", int64(len(outcomes)))
	}
	return true
}

func profC02() spec.Profile {
	return spec.Profile{MaxLeaves: 8, ValueFn: 0.2, PAuto: 0}
}

func runC02(ctx *h.Ctx) int {
	// random trees, up to 8 leaves
	ctx.RunCases("random-conditions", ctx.N(7000, 200000), func(k *h.Case) {
		p := profC02()
		p.MaxLeaves = 1 + k.Index%8
		g := spec.NewGen(k.R, p)
		c := g.CondTree(p.MaxLeaves)
		prog, leaves := condProgram(g, c, k.R.IntN(5))
		if checkCondProgram(k, prog, leaves, 243, nil) {
			k.Nontrivial(shapeOfCond(c))
			k.Count(fmt.Sprintf("leaves=%d", len(leaves)), 1)
			k.Sample(fmt.Sprintf("random-%d", len(leaves)/3), spec.Source(prog))
		}
	})
	// the precedence families singled out in the design
	fam := []string{"[l&l&l|l]", "[l&(l)|l]", "[!([l&l])|l]", "[l|l&l|l]", "[l&l|l&l]", "[l&[l|l]&l|l]", "[l&!([l|l])|l]", "[(l)&(l)|(l)]", "[l&l&l&l|l]", "[l|l&l&l]"}
	_ = fam
	// complete enumeration of skeletons
	maxN := 3
	reps := 2
	if !ctx.Quick() {
		maxN, reps = 4, 3
	}
	var all []*shape
	for n := 1; n <= maxN; n++ {
		all = append(all, enumShapes(n, map[int]int{1: 2, 2: 2, 3: 1, 4: 0}[n])...)
	}
	ctx.RunCases("all-skeletons", len(all)*reps, func(k *h.Case) {
		sh := all[k.Index%len(all)]
		g := spec.NewGen(k.R, spec.Profile{ValueFn: 0.15})
		c := sh.build(func() spec.Cond { return g.LeafCond() })
		prog, leaves := condProgram(g, c, k.Index/len(all)+k.R.IntN(5))
		if checkCondProgram(k, prog, leaves, 243, nil) {
			k.Nontrivial("skeleton", sh.String())
			k.Sample("skeleton", spec.Source(prog))
		}
	})
	// related tests: the leaves of one condition, and the arms of one if / elif chain, test the SAME few operands
	// with related operators and values (== TRUE then == FALSE, < N then >= N, flag then !flag, the same test
	// twice). Nothing may be merged, dropped or inverted on the strength of such a relation unless the outcome is
	// the same for every value (a var may hold neither TRUE nor FALSE)
	ctx.RunCases("related-tests", ctx.N(3000, 100000), func(k *h.Case) {
		g := spec.NewGen(k.R, spec.Profile{})
		names := map[string][]string{spec.LeafVar: {g.Name("VAR_R"), g.Name("VAR_R")}, spec.LeafFlag: {g.Name("FLAG_R"), g.Name("FLAG_R")}, spec.LeafDefeated: {g.Name("TRAINER_R")}}
		kinds := []string{spec.LeafVar, spec.LeafVar, spec.LeafVar, spec.LeafFlag, spec.LeafFlag, spec.LeafDefeated}
		if k.Index%3 == 0 {
			kinds = []string{spec.LeafVar}
			names[spec.LeafVar] = names[spec.LeafVar][:1]
		}
		base := 2 + k.R.IntN(5)
		mkLeaf := func() spec.Cond {
			kind := kinds[k.R.IntN(len(kinds))]
			l := &spec.Leaf{ID: g.Prog.NewID(), Kind: kind, Operand: []string{names[kind][k.R.IntN(len(names[kind]))]}}
			if kind == spec.LeafVar {
				switch k.R.IntN(8) {
				case 0:
					l.Bang = k.R.IntN(2) == 0
				case 1, 2:
					l.Op = []string{"==", "!="}[k.R.IntN(2)]
					l.Value = []string{[]string{"TRUE", "FALSE", "true", "false"}[k.R.IntN(4)]}
				default:
					l.Op = []string{"==", "!=", "<", "<=", ">", ">="}[k.R.IntN(6)]
					l.Value = []string{strconv.Itoa(base + k.R.IntN(2))}
				}
			} else {
				switch k.R.IntN(3) {
				case 0:
					l.Bang = k.R.IntN(2) == 0
				default:
					l.Op = []string{"==", "!="}[k.R.IntN(2)]
					l.Value = []string{[]string{"TRUE", "FALSE", "true", "false"}[k.R.IntN(4)]}
				}
			}
			return l
		}
		mkCond := func() spec.Cond {
			switch k.R.IntN(6) {
			case 0:
				return &spec.And{Xs: []spec.Cond{mkLeaf(), mkLeaf()}}
			case 1:
				return &spec.Or{Xs: []spec.Cond{mkLeaf(), mkLeaf()}}
			}
			return mkLeaf()
		}
		blk := func(ss ...spec.Stmt) *spec.Block { return &spec.Block{ID: g.Prog.NewID(), Stmts: ss} }
		var leaves []*spec.Leaf
		var body []spec.Stmt
		what := ""
		if k.Index%2 == 0 {
			n := 2 + k.R.IntN(3)
			st := &spec.If{ID: g.Prog.NewID()}
			for i := 0; i < n; i++ {
				c := mkCond()
				condLeaves(c, &leaves)
				st.Arms = append(st.Arms, &spec.Arm{Cond: c, Body: blk(marker(g, fmt.Sprintf("arm%d", i)))})
			}
			if k.R.IntN(2) == 0 {
				st.Else = blk(marker(g, "else"))
			}
			body = []spec.Stmt{st, marker(g, "after")}
			if k.R.IntN(3) == 0 {
				body = []spec.Stmt{st} // the chain is the last statement of the script
			}
			what = fmt.Sprintf("chain%d", n)
		} else {
			shs := enumShapes(2+k.R.IntN(2), 0)
			sh := shs[k.R.IntN(len(shs))]
			c := sh.build(mkLeaf)
			condLeaves(c, &leaves)
			switch k.R.IntN(3) {
			case 0:
				body = []spec.Stmt{&spec.If{ID: g.Prog.NewID(), Arms: []*spec.Arm{{Cond: c, Body: blk(marker(g, "yes"))}}, Else: blk(marker(g, "no"))}, marker(g, "after")}
			case 1:
				body = []spec.Stmt{&spec.While{ID: g.Prog.NewID(), Cond: c, Body: blk(marker(g, "body"))}, marker(g, "after")}
			default:
				body = []spec.Stmt{&spec.DoWhile{ID: g.Prog.NewID(), Body: blk(marker(g, "body")), Cond: c}, marker(g, "after")}
			}
			what = "tree" + sh.String()
		}
		g.Prog.Items = append(g.Prog.Items, &spec.Script{ID: g.Prog.NewID(), Name: g.Name("Scr"), Body: blk(body...)})
		if checkCondProgram(k, g.Prog, leaves, 729, nil) {
			k.Count("programs_with_related_tests", 1)
			sig := what
			for _, l := range leaves {
				sig += fmt.Sprintf(" %s%v%s%s", l.Kind[:1], l.Bang, l.Op, strings.Join(l.Value, ""))
			}
			k.Nontrivial("related", sig)
		}
	})
	ctx.Exhaustive("condition skeletons (and/or n-ary trees, negated groups, redundant parentheses around leaves for n<=3, negated groups around a single leaf / a negation / redundant parentheses for n<=2)", int64(len(all)),
		fmt.Sprintf("every skeleton with 1..%d leaves, each with %d random leaf-form assignments and the complete truth table", maxN, reps))
	rejectGuard(ctx, 0.05)
	return ctx.Finish(
		"one conditional construct (if/else, elif, while, do-while, if+end) per program around a condition tree; every leaf has its own operand, except in the sub-check related-tests, where the leaves of a tree and the arms of an if/elif chain share one to five operands with related operators and values (domain of a shared operand = union of the neighbourhoods); VM and reference run for the complete truth table (flag/defeated in {0,1}, var in {value-1,value,value+1}; sampled above 243 combinations); compared: sequence of tests (kind, operand, comparison value, raw/normal), commands, terminal. non-trivial = accepted program; distinct = distinct condition skeleton incl. leaf forms/operators",
		ctx.N(300, 3000),
		[]string{"short-circuit left-to-right order is part of the property statement, so the order of tests is compared", "the operator sense of the emitted jump is free; only the outcome per assignment is compared"})
}
