package checks

import (
	"os"

	"verif.local/pvmon/internal/h"
	"verif.local/pvmon/internal/spec"
)

func init() { Registry["C01"] = runC01 }

// profC01: every control construct, single-leaf conditions, plain switches as
// context, labels and gotos everywhere, code after jumps.
func profC01() spec.Profile {
	return spec.Profile{
		MaxDepth: 4, MaxLen: 4,
		WCmd: 30, WLabel: 7, WGoto: 5, WCondGoto: 3, WEnd: 4, WIf: 14, WWhile: 8, WInfWhile: 4, WDoWhile: 6, WBreak: 7, WContinue: 6, WSwitch: 6,
		MaxLeaves: 1, PEmptyBody: 0.12, AfterJump: 0.5, PElse: 0.5, MaxElif: 2, MaxCases: 4, PDefault: 0.5, PEmptyCase: 0.2,
		NoRedundantPar: true, PReuseOperand: 0.2, PCall: 0.06, PEndVariants: 0.2,
	}
}

// genScripts generates a program of n scripts with the given profile.
func genScripts(k *h.Case, prof spec.Profile, n int) (*spec.Gen, *spec.Program) {
	g := spec.NewGen(k.R, prof)
	for i := 0; i < n; i++ {
		g.Prog.Items = append(g.Prog.Items, g.Script())
	}
	return g, g.Prog
}

// layoutOf prints a program, scrambled with the given probability.
func layoutOf(k *h.Case, p *spec.Program, pScramble float64) *spec.Printed {
	pr := spec.Print(p)
	o := spec.LayoutOpts{R: k.R}
	if h.Chance(k.R, pScramble) && os.Getenv("VERIF_NO_SCRAMBLE") == "" {
		o.Scramble = true
		o.CRLF = k.R.IntN(4) == 0
	} else if os.Getenv("VERIF_NO_SCRAMBLE") == "" {
		// a file of scripts only has no significant line break: now and then the whole file is one line
		only := len(p.Items) > 0
		for _, it := range p.Items {
			if _, ok := it.(*spec.Script); !ok {
				only = false
			}
		}
		if only && k.R.IntN(12) == 0 {
			o.OneLine = true
			k.Count("files_written_on_one_line", 1)
		}
	}
	pr.Layout(o)
	return pr
}

func runC01(ctx *h.Ctx) int {
	prof := profC01()
	nStates := ctx.N(8, 24)
	ctx.RunCases("random-scripts", ctx.N(6000, 250000), func(k *h.Case) {
		p := prof
		// vary the flavour per case so every construct also appears in isolation
		switch k.Index % 6 {
		case 5:
			// compound conditions around (often empty) bodies: the lowering of && / || / ! trees meets the
			// control-flow lowering
			p.MaxLeaves, p.PEmptyBody, p.PElse, p.NoRedundantPar = 3, 0.3, 0.7, false
		case 1:
			p.WSwitch = 0
		case 2:
			p.WGoto, p.WLabel = 12, 14
		case 3:
			p.WBreak, p.WContinue, p.WWhile, p.WDoWhile, p.WInfWhile = 14, 12, 14, 10, 8
		case 4:
			p.MaxDepth, p.MaxLen = 5, 3
		}
		g, prog := genScripts(k, p, 1+k.R.IntN(2))
		pr := layoutOf(k, prog, 0.2)
		k.SetSource(pr.Src)
		for _, opt := range []bool{true, false} {
			res := h.Compile(pr.Src, optsOf(prog, opt))
			k.Count("evaluations", 1)
			if !res.OK() {
				k.Count("rejected", 1)
				k.Count("rejected: "+rejectFamily(res.ErrString()), 1)
				rejectedValid(k, prog, res, false)
				return
			}
			k.Count("accepted", 1)
			tag := "optimize=false"
			if opt {
				tag = "optimize=true"
			}
			if !vmCheck(k, prog, res.Out, vmCheckOpts{NStates: nStates, Cands: g.Cands(), Orig: prog, Optimize: opt}, tag) {
				return
			}
		}
		for _, s := range scriptsOf(prog) {
			sh := shapeOfBlock(s.Body)
			if len(sh) > 4 {
				k.Nontrivial(sh)
			}
		}
		k.Sample("random-script", map[string]interface{}{"source": pr.Src})
	})
	runC01Enumerated(ctx)
	rejectGuard(ctx, 0.05)
	return ctx.Finish(
		"random scripts (one flavour in six with compound conditions of up to 3 leaves and many empty bodies) over command/label/goto/end/return/if-elif-else/while/condition-less while/do-while/break/continue/plain switch (depth<=5), compiled with optimize on and off; each script run on the assembly VM and the reference interpreter under N hash-derived game states (state = function of epoch,kind,name); non-trivial = accepted script whose body has at least one construct; distinct = distinct structural signature (names abstracted)",
		ctx.N(500, 5000),
		[]string{"VM gives goto/goto_if_*/compare/checktrainerflag/switch/case/return/end the game's semantics; every other command is opaque and may change any state", "runs are cut at 64 commands; silent loops detected by revisiting a position in the same epoch", "generator never emits names that imitate generated labels"})
}
