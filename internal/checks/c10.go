package checks

import (
	"fmt"
	"strings"

	"verif.local/pvmon/internal/asm"
	"verif.local/pvmon/internal/h"
	"verif.local/pvmon/internal/spec"
)

func init() { Registry["C10"] = runC10 }

// straightScript builds a script of commands and labels only.
func straightScript(g *spec.Gen) *spec.Script {
	s := &spec.Script{ID: g.Prog.NewID(), Name: g.Name("Scr"), Body: &spec.Block{ID: g.Prog.NewID()}}
	n := g.R.IntN(9)
	for i := 0; i < n; i++ {
		switch g.R.IntN(9) {
		case 0:
			l := &spec.Label{ID: g.Prog.NewID(), Name: g.Name("Lbl")}
			if g.R.IntN(2) == 0 {
				l.Scope = 1 + g.R.IntN(2)
			}
			s.Body.Stmts = append(s.Body.Stmts, l)
		case 1:
			// the four-token look-ahead: a command whose only argument is global/local
			c := &spec.Cmd{ID: g.Prog.NewID(), Name: g.Name("cmd"), Args: []*spec.Arg{{Toks: []string{[]string{"global", "local"}[g.R.IntN(2)]}}}}
			s.Body.Stmts = append(s.Body.Stmts, &spec.CmdStmt{Cmd: c})
		case 2:
			if g.R.IntN(3) == 0 {
				s.Body.Stmts = append(s.Body.Stmts, &spec.CmdStmt{Cmd: &spec.Cmd{ID: g.Prog.NewID(), Name: []string{"end", "return"}[g.R.IntN(2)]}})
				break
			}
			if g.R.IntN(3) == 0 {
				// the user's own jumps are commands like any other: goto / call to the label on the very next
				// line, to an earlier label or out of the file
				name := []string{"goto", "goto", "call"}[g.R.IntN(3)]
				switch g.R.IntN(3) {
				case 0:
					l := &spec.Label{ID: g.Prog.NewID(), Name: g.Name("Next")}
					s.Body.Stmts = append(s.Body.Stmts, &spec.CmdStmt{Cmd: &spec.Cmd{ID: g.Prog.NewID(), Name: name, Args: []*spec.Arg{{Toks: []string{l.Name}}}}}, l)
				case 1:
					target := s.Name
					for _, st := range s.Body.Stmts {
						if l, ok := st.(*spec.Label); ok && g.R.IntN(2) == 0 {
							target = l.Name
						}
					}
					s.Body.Stmts = append(s.Body.Stmts, &spec.CmdStmt{Cmd: &spec.Cmd{ID: g.Prog.NewID(), Name: name, Args: []*spec.Arg{{Toks: []string{target}}}}})
				default:
					s.Body.Stmts = append(s.Body.Stmts, &spec.CmdStmt{Cmd: &spec.Cmd{ID: g.Prog.NewID(), Name: name, Args: []*spec.Arg{{Toks: []string{g.Name("Elsewhere")}}}}})
				}
				break
			}
			fallthrough
		default:
			c := g.Cmd()
			if g.R.IntN(12) == 0 {
				// a negative hex literal (lexed as `-0` `x10`; emitted with the same characters)
				c.Args = append(c.Args, &spec.Arg{Toks: []string{[]string{"-0x10", "-0x1F", "-0xab"}[g.R.IntN(3)]}})
			}
			// operator characters written without a blank between them (`/*`, `*+`, `%%`): each stays a token of
			// its own (pairs that would form another token - `//`, `==`, `&&`, a signed number - are left alone)
			for _, a := range c.Args {
				for i := 1; i < len(a.Toks); i++ {
					if strings.Contains("/ * + % @ ~ ? ^ .", a.Toks[i-1]) && len(a.Toks[i-1]) == 1 && strings.Contains("* + % @ ~ ? ^ .", a.Toks[i]) && len(a.Toks[i]) == 1 && a.Toks[i-1] != " " && a.Toks[i] != " " && g.R.IntN(2) == 0 {
						a.Toks[i] = "\x01" + a.Toks[i]
					}
				}
			}
			s.Body.Stmts = append(s.Body.Stmts, &spec.CmdStmt{Cmd: c})
		}
	}
	return s
}

func runC10(ctx *h.Ctx) int {
	ctx.RunCases("straight-line", ctx.N(12000, 500000), func(k *h.Case) {
		g := spec.NewGen(k.R, spec.Profile{RichArgs: k.Index%4 != 0, PTextArg: 0.15, PMovesArg: 0.08, PTyped: 0.2})
		ns := 1 + k.R.IntN(3)
		for i := 0; i < ns; i++ {
			g.Prog.Items = append(g.Prog.Items, straightScript(g))
		}
		prog := g.Prog
		pr := layoutOf(k, prog, 0.3)
		k.SetSource(pr.Src)
		lm := buildLabelModel(prog)
		for _, opt := range []bool{true, false} {
			res := h.Compile(pr.Src, optsOf(prog, opt))
			k.Count("evaluations", 1)
			if !res.OK() {
				k.Count("rejected", 1)
				k.Count("rejected: "+rejectFamily(res.ErrString()), 1)
				debugReject(pr.Src, res.ErrString())
				rejectedValid(k, prog, res, true)
				return
			}
			k.Count("accepted", 1)
			f := asm.Parse(res.Out)
			bnd := boundaryOf(prog, f)
			for _, it := range prog.Items {
				s := it.(*spec.Script)
				sec, err := f.SectionOf(s.Name, bnd)
				if err != nil {
					k.Violation("entry-label", err.Error(), map[string]interface{}{"output": res.Out})
					return
				}
				var want []string
				for _, st := range s.Body.Stmts {
					switch x := st.(type) {
					case *spec.CmdStmt:
						want = append(want, normLine(lm.renderCmd(x.Cmd)))
						for ai, a := range x.Cmd.Args {
							if a.Text == nil && a.Moves == nil && len(a.Toks) == 0 {
								if ai == len(x.Cmd.Args)-1 {
									k.Count("commands_with_trailing_comma", 1)
								} else {
									k.Count("commands_with_empty_argument", 1)
								}
							}
						}
					case *spec.Label:
						if x.Scope == spec.ScopeGlobal {
							want = append(want, x.Name+"::")
						} else {
							want = append(want, x.Name+":")
						}
					}
				}
				endsInTerminator := false
				if n := len(s.Body.Stmts); n > 0 {
					if c, ok := s.Body.Stmts[n-1].(*spec.CmdStmt); ok && (c.Cmd.Name == "end" || c.Cmd.Name == "return") {
						endsInTerminator = true
					}
				}
				if !endsInTerminator {
					want = append(want, "return")
				}
				var got []string
				for i := sec.Start + 1; i < sec.End; i++ {
					l := &f.Lines[i]
					switch l.Kind {
					case asm.KInstr:
						got = append(got, normLine(strings.TrimSpace(l.Text)))
					case asm.KLabel:
						got = append(got, l.Text)
					}
				}
				if !eqStrings(want, got) && !sameCharsWithNegHex(want, got) {
					k.Violation("", fmt.Sprintf("[optimize=%v] script %s: emitted lines differ from the command statements\n expected: %s\n emitted:  %s", opt, s.Name, strings.Join(want, " | "), strings.Join(got, " | ")), map[string]interface{}{"output": res.Out})
					return
				}
				k.Count("command_lines_checked", int64(len(want)))
			}
		}
		for _, it := range prog.Items {
			s := it.(*spec.Script)
			var sig strings.Builder
			for _, st := range s.Body.Stmts {
				if c, ok := st.(*spec.CmdStmt); ok {
					fmt.Fprintf(&sig, "c%d", len(c.Cmd.Args))
					for _, a := range c.Cmd.Args {
						switch {
						case a.Text != nil:
							sig.WriteString("T")
						case a.Moves != nil:
							sig.WriteString("M")
						default:
							for _, t := range a.Toks {
								if strings.ContainsAny(t[:1], "(),+-*=<>!&|[]@%") {
									sig.WriteString(t)
								} else {
									sig.WriteString("w")
								}
							}
						}
						sig.WriteString(",")
					}
				} else {
					sig.WriteString("L")
				}
			}
			if sig.Len() > 0 {
				k.Nontrivial(sig.String())
			}
		}
		k.Sample("straight", pr.Src)
	})
	// command rendering on every executed path of structured programs
	prof := profC01()
	prof.RichArgs, prof.PTextArg, prof.PMovesArg, prof.PTyped = true, 0.15, 0.08, 0.2
	ctx.RunCases("in-control-flow", ctx.N(2500, 100000), func(k *h.Case) {
		p := prof
		if k.Index%2 == 1 {
			// commands inside poryswitch cases (incl. the '_' fallback) and AutoVar commands inside
			// compound / parenthesised conditions
			p.WPory, p.PoryKeys, p.PFallback = 6, []string{"GAME"}, 0.9
			p.PAuto, p.MaxLeaves, p.NoRedundantPar, p.RichArgs = 0.35, 3, false, false
			p.PTextArg, p.PMovesArg = 0.3, 0.12
		}
		g, prog0 := genScripts(k, p, 1+k.R.IntN(2))
		if len(p.PoryKeys) > 0 {
			prog0.Switches["GAME"] = []string{"RUBY", "SAPPHIRE", "OTHER", "1"}[k.R.IntN(4)]
		}
		prog, rerr := spec.Resolve(prog0, prog0.Switches)
		pr := layoutOf(k, prog0, 0.2)
		k.SetSource(pr.Src)
		if rerr != nil {
			k.Count("rejected", 1)
			return
		}
		lm := buildLabelModel(prog)
		for _, opt := range []bool{true, false} {
			res := h.Compile(pr.Src, optsOf(prog0, opt))
			k.Count("evaluations", 1)
			if !res.OK() {
				k.Count("rejected", 1)
				rejectedValid(k, prog0, res, true)
				return
			}
			k.Count("accepted", 1)
			if !vmCheck(k, prog, res.Out, vmCheckOpts{NStates: ctx.N(6, 16), Full: true, Render: lm.renderCmd, Cands: g.Cands(), Orig: prog0, Optimize: opt}, fmt.Sprintf("optimize=%v", opt)) {
				return
			}
		}
		for _, s := range scriptsOf(prog) {
			if sh := shapeOfBlock(s.Body); len(sh) > 4 {
				k.Nontrivial("cf", sh)
			}
		}
	})
	rejectGuard(ctx, 0.1)
	return ctx.Finish(
		"straight-line scripts (commands with 0..3 arguments made of identifiers incl. multi-byte, decimal/hex/negative numbers, operator characters, keywords, nested parentheses with commas, inline text and moves(); labels with and without scope; commands whose argument is global/local): the script's emitted lines must equal, in order, one line per statement = name + arguments (token sequence compared, spacing ignored, inline text/moves replaced by the hoisting model's label) followed by the terminator. Second workload: the same argument shapes inside structured control flow, checked on every executed path by VM-vs-reference trace equality with full command texts. distinct = distinct argument-shape signature",
		ctx.N(1000, 10000),
		[]string{"'spacing normalised' is read as: only the token sequence (with commas and parentheses as tokens) is fixed", "format/moves/string tokens inside an argument are inline values, not plain tokens, and are not generated as plain tokens"})
}

// sameCharsWithNegHex: the lexer reads `-0x10` as the two tokens `-0` and
// `x10`, so such an argument is emitted as "-0 x10": the same source
// characters with different spacing. Lines that contain a negative hex literal
// are therefore compared with all white space removed.
func sameCharsWithNegHex(want, got []string) bool {
	if len(want) != len(got) {
		return false
	}
	for i := range want {
		if want[i] == got[i] {
			continue
		}
		// only the `-0 xNN` token pair is glued back; everything else is compared token by token
		if !strings.Contains(want[i], "-0x") || want[i] != strings.ReplaceAll(got[i], "-0 x", "-0x") {
			return false
		}
	}
	return true
}
