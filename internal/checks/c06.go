package checks

import (
	"fmt"
	"regexp"
	"strings"

	"verif.local/pvmon/internal/asm"
	"verif.local/pvmon/internal/h"
	"verif.local/pvmon/internal/spec"
)

func init() { Registry["C06"] = runC06 }

func profC06() spec.Profile {
	return spec.Profile{
		MaxDepth: 3, MaxLen: 4,
		WCmd: 40, WLabel: 2, WGoto: 1, WEnd: 2, WIf: 10, WWhile: 5, WInfWhile: 2, WDoWhile: 5, WBreak: 4, WContinue: 3, WSwitch: 8, WPory: 6,
		MaxLeaves: 3, PAuto: 0.5, PTextArg: 0.45, PMovesArg: 0.25, PFormat: 0.2, PTyped: 0.3,
		PEmptyBody: 0.05, AfterJump: 0.3, PElse: 0.5, MaxElif: 2, MaxCases: 4, PDefault: 0.5, PEmptyCase: 0.2,
		PoryKeys: []string{"GAME", "LANG"}, PFallback: 0.85,
		TextPool: []string{"Hello", "Bye now", "A b c", "Prize!", "x", "Hello there, how are you doing on this very fine day of spring?", `One\pTwo\nThree`, "(", ")", ",", "moves"},
	}
}

var hoistedNameRe = regexp.MustCompile(`_(Text|Movement)_\d+$`)

// textBlock reads the directive lines that follow a label.
func textBlock(f *asm.File, at int) (lines []string, ok bool) {
	for i := at + 1; i < len(f.Lines); i++ {
		l := &f.Lines[i]
		if l.Kind == asm.KMarker {
			continue
		}
		if l.Kind != asm.KInstr || !l.IsData() {
			break
		}
		lines = append(lines, l.Op+" "+l.Args)
	}
	return lines, len(lines) > 0
}

// movementBlock reads the step lines that follow a label up to the blank line.
func movementBlock(f *asm.File, at int) (steps []string) {
	for i := at + 1; i < len(f.Lines); i++ {
		l := &f.Lines[i]
		if l.Kind == asm.KMarker {
			continue
		}
		if l.Kind != asm.KInstr {
			break
		}
		steps = append(steps, strings.TrimSpace(l.Text))
	}
	return steps
}

// expectedTextLines renders the directive lines a text content must produce.
func expectedTextLines(content, typ string) []string {
	dir := ".string"
	if typ != "" {
		dir = "." + typ
	}
	var out []string
	for _, ln := range strings.Split(content, "\n") {
		out = append(out, dir+` "`+ln+`"`)
	}
	return out
}

// hoistCheck applies the C06 oracle to one output of resolved program rp.
func hoistCheck(k *h.Case, rp *spec.Program, out, tag string) bool {
	f := asm.Parse(out)
	lm := buildLabelModel(rp)
	if lm.Err != nil {
		k.C.Inconclusive("label model: %v", lm.Err)
		return false
	}
	bad := func(key, format string, a ...interface{}) bool {
		k.Violation(key, "["+tag+"] "+fmt.Sprintf(format, a...), map[string]interface{}{"output": out})
		return false
	}
	// argument slots
	linesByOp := map[string][]*asm.Line{}
	for i := range f.Lines {
		if l := &f.Lines[i]; l.Kind == asm.KInstr {
			linesByOp[l.Op] = append(linesByOp[l.Op], l)
		}
	}
	ok := true
	for _, s := range scriptsOf(rp) {
		allCmds(s.Body, func(c *spec.Cmd) {
			if !ok {
				return
			}
			inline := false
			for _, a := range c.Args {
				if a.Text != nil || a.Moves != nil {
					inline = true
				}
			}
			if !inline {
				return
			}
			ls := linesByOp[c.Name]
			if len(ls) == 0 {
				ok = bad("command-missing", "command %q (with inline text/moves) does not appear in the output", c.Name)
				return
			}
			want := lm.renderCmd(c)
			for _, l := range ls {
				got := strings.TrimSpace(l.Text)
				if normLine(got) != normLine(want) {
					ok = bad("wrong-hoisted-label", "command line %q, expected %q (inline text/moves replaced by the label of its content)", got, want)
					return
				}
				k.Count("command_slots_checked", 1)
			}
		})
	}
	if !ok {
		return false
	}
	predicted := map[string]bool{}
	for _, t := range lm.Texts {
		predicted[t.Label] = true
		defs := f.Labels[t.Label]
		if len(defs) != 1 {
			return bad("hoisted-text-defs", "hoisted text label %q is defined %d times", t.Label, len(defs))
		}
		if f.Lines[defs[0]].Global {
			return bad("hoisted-text-global", "hoisted text label %q is exported (::)", t.Label)
		}
		got, _ := textBlock(f, defs[0])
		want := expectedTextLines(t.Content, t.Type)
		if !eqStrings(got, want) {
			return bad("hoisted-text-content", "hoisted text %q: emitted %q, expected %q", t.Label, got, want)
		}
		k.Count("hoisted_texts_checked", 1)
		if t.Uses > 1 {
			k.Count("shared_texts", 1)
		}
	}
	for _, m := range lm.Moves {
		predicted[m.Label] = true
		defs := f.Labels[m.Label]
		if len(defs) != 1 {
			return bad("hoisted-moves-defs", "hoisted movement label %q is defined %d times", m.Label, len(defs))
		}
		if f.Lines[defs[0]].Global {
			return bad("hoisted-moves-global", "hoisted movement label %q is exported (::)", m.Label)
		}
		got := movementBlock(f, defs[0])
		want := append(append([]string{}, m.Steps...), "step_end")
		for i, s := range m.Steps {
			if s == "step_end" {
				want = want[:i+1]
				break
			}
		}
		if !eqStrings(got, want) {
			return bad("hoisted-moves-content", "hoisted movement %q: emitted %v, expected %v", m.Label, got, want)
		}
		k.Count("hoisted_movements_checked", 1)
		if m.Uses > 1 {
			k.Count("shared_movements", 1)
		}
	}
	names := itemNames(rp)
	for name := range f.Labels {
		if hoistedNameRe.MatchString(name) && !predicted[name] && !names[name] {
			return bad("unexpected-hoisted-label", "output defines %q, which no inline text/moves() accounts for", name)
		}
	}
	return true
}

func runC06(ctx *h.Ctx) int {
	prof := profC06()
	ctx.RunCases("hoisting", ctx.N(5000, 250000), func(k *h.Case) {
		g := spec.NewGen(k.R, prof)
		n := 1 + k.R.IntN(4)
		for i := 0; i < n; i++ {
			if k.R.IntN(5) == 0 {
				g.Prog.Items = append(g.Prog.Items, g.MapScriptsStmt())
			} else {
				g.Prog.Items = append(g.Prog.Items, g.Script())
			}
		}
		prog := g.Prog
		for _, key := range prof.PoryKeys {
			prog.Switches[key] = []string{"RUBY", "SAPPHIRE", "EMERALD", "1", "2", "OTHER"}[k.R.IntN(6)]
		}
		if k.R.IntN(3) == 0 {
			// constants spelled like whole text contents: text content is never substituted
			prog.Items = append([]spec.Item{&spec.Const{ID: prog.NewID(), Name: "Hello", Value: []string{"1"}}, &spec.Const{ID: prog.NewID(), Name: "x", Value: []string{"VAR_TEMP_2"}}}, prog.Items...)
			k.Count("files_with_constants_spelled_like_texts", 1)
		}
		if k.R.IntN(4) == 0 {
			// text and movement STATEMENTS with exactly the content (and string type) of an inline value, before and
			// after the scripts: they are data of their own and never stand in for the hoisted label
			var texts []*spec.TextVal
			var moves [][]*spec.ListElem
			for _, sc := range scriptsOf(prog) {
				allCmds(sc.Body, func(c *spec.Cmd) {
					for _, a := range c.Args {
						if a.Text != nil && a.Text.Format == nil {
							texts = append(texts, a.Text)
						}
						if a.Moves != nil {
							moves = append(moves, a.Moves)
						}
					}
				})
			}
			var extra []spec.Item
			if len(texts) > 0 {
				t := texts[k.R.IntN(len(texts))]
				extra = append(extra, &spec.TextItem{ID: prog.NewID(), Name: g.Name("TxtSame"), Scope: k.R.IntN(3), Val: &spec.TextVal{ID: prog.NewID(), Type: t.Type, Parts: append([]string{}, t.Parts...)}})
			}
			if len(moves) > 0 {
				src := moves[k.R.IntN(len(moves))]
				plain := true
				var cp []*spec.ListElem
				for _, e := range src {
					if e.PS != nil {
						plain = false
					}
					cp = append(cp, &spec.ListElem{ID: prog.NewID(), Name: e.Name, Mult: e.Mult, Comma: e.Comma})
				}
				if plain {
					extra = append(extra, &spec.MovementItem{ID: prog.NewID(), Name: g.Name("MovSame"), Steps: cp})
				}
			}
			if len(extra) > 0 {
				if k.R.IntN(3) != 0 {
					prog.Items = append(extra, prog.Items...)
				} else {
					prog.Items = append(prog.Items, extra...)
				}
				k.Count("files_with_statements_equal_to_inline_values", 1)
			}
		}
		rp, rerr := spec.Resolve(prog, prog.Switches)
		pr := layoutOf(k, prog, 0.15)
		k.SetSource(pr.Src)
		for _, opt := range []bool{true, false} {
			res := h.Compile(pr.Src, optsOf(prog, opt))
			k.Count("evaluations", 1)
			if !res.OK() {
				k.Count("rejected", 1)
				k.Count("rejected: "+rejectFamily(res.ErrString()), 1)
				debugReject(pr.Src, res.ErrString())
				rejectedValid(k, prog, res, true)
				return
			}
			if rerr != nil {
				acceptedUnmatched(k)
				return
			}
			k.Count("accepted", 1)
			tag := fmt.Sprintf("optimize=%v", opt)
			if kk, probe := k.Dry(); !hoistCheck(kk, rp, res.Out, tag) && len(probe.Keys) > 0 {
				key, msg := probe.Keys[0], probe.Msgs[0]
				det := map[string]interface{}{"output": res.Out}
				msrc, mmsg := shrinkFor(k, prog, key, func(k2 *h.Case, src string) {
					r := h.Compile(src, optsOf(prog, opt))
					rp2, err := spec.Resolve(prog, prog.Switches)
					if r.OK() && err == nil {
						hoistCheck(k2, rp2, r.Out, tag)
					}
				})
				if msrc != "" {
					msg += "\nreduced witness:\n" + msrc + "--- " + mmsg
					det["minimal_source"] = msrc
					det["minimal_output"] = h.Compile(msrc, optsOf(prog, opt)).Out
				}
				k.Violation(key, msg, det)
				return
			}
			hoistCheck(k, rp, res.Out, tag)
		}
		lm := buildLabelModel(rp)
		if len(lm.Texts)+len(lm.Moves) > 0 {
			var sig strings.Builder
			for _, t := range lm.Texts {
				fmt.Fprintf(&sig, "T%s%d/%d;", t.Type, len(t.Content), t.Uses)
			}
			for _, m := range lm.Moves {
				fmt.Fprintf(&sig, "M%d/%d;", len(m.Steps), m.Uses)
			}
			k.Nontrivial(sig.String())
			k.Sample("hoisting", pr.Src)
		}
	})
	// contents chosen so that naive sharing keys collide (or fail to collide)
	ctx.RunCases("adversarial-sharing", ctx.N(3000, 100000), func(k *h.Case) {
		r := k.R
		g := spec.NewGen(r, spec.Profile{})
		prog := g.Prog
		step := func(name, mult string) *spec.ListElem {
			return &spec.ListElem{ID: prog.NewID(), Name: name, Mult: mult, Comma: r.IntN(4) == 0}
		}
		moveVariants := [][]*spec.ListElem{
			{step("delay_1", "6")}, {step("delay_16", "")}, {step("delay_1", ""), step("delay_1", "5")}, {step("delay_1", "0x6")},
			{step("walk_1", "2")}, {step("walk_12", "")}, {step("walk_1", ""), step("walk_1", "")}, {step("walk_1", "1"), step("walk_1", "1")},
			{step("ab", ""), step("c", "")}, {step("a", ""), step("bc", "")}, {step("abc", "")},
			{step("walk_up", "11")}, {step("walk_up", "1"), step("walk_up1", "")}, {step("walk_up1", "1")},
		}
		text := func(typ string, parts ...string) *spec.TextVal {
			return &spec.TextVal{ID: prog.NewID(), Type: typ, Parts: parts}
		}
		textVariants := []func() *spec.TextVal{
			func() *spec.TextVal { return text("", "abc") }, func() *spec.TextVal { return text("", "abc$") }, func() *spec.TextVal { return text("", "ab", "c") },
			func() *spec.TextVal { return text("", "a", "bc") }, func() *spec.TextVal { return text("ascii", "abc") }, func() *spec.TextVal { return text("ascii", `abc\0`) },
			func() *spec.TextVal { return text("braille", "abc") }, func() *spec.TextVal { return text("custom", "abc") }, func() *spec.TextVal { return text("custom", "abc$") },
			func() *spec.TextVal { return text("", "abc$$") }, func() *spec.TextVal { return text("", "") }, func() *spec.TextVal { return text("", "$") },
			// content that starts with the name of a string type (keys built by concatenation collide)
			func() *spec.TextVal { return text("", "brailleabc") }, func() *spec.TextVal { return text("", "customabc") }, func() *spec.TextVal { return text("", "customabc$") },
			func() *spec.TextVal { return text("", "asciiabc") }, func() *spec.TextVal { return text("custom", "") }, func() *spec.TextVal { return text("", "custom") },
			func() *spec.TextVal { return text("braille", "a", "bc") }, func() *spec.TextVal { return text("", "abc ") }, func() *spec.TextVal { return text("", " abc") },
			// texts that are exactly one delimiter or keyword (compared by literal instead of by token type they look like syntax)
			func() *spec.TextVal { return text("", "(") }, func() *spec.TextVal { return text("", ")") }, func() *spec.TextVal { return text("", ",") },
			func() *spec.TextVal { return text("", "format") }, func() *spec.TextVal { return text("ascii", "moves") }, func() *spec.TextVal { return text("", "}") },
		}
		ns := 1 + r.IntN(3)
		for i := 0; i < ns; i++ {
			sc := &spec.Script{ID: prog.NewID(), Name: g.Name("Scr"), Body: &spec.Block{ID: prog.NewID()}}
			nc := 2 + r.IntN(5)
			for j := 0; j < nc; j++ {
				c := &spec.Cmd{ID: prog.NewID(), Name: g.Name("cmd")}
				na := 1 + r.IntN(3)
				for a := 0; a < na; a++ {
					switch r.IntN(3) {
					case 0:
						src := moveVariants[r.IntN(len(moveVariants))]
						var cp []*spec.ListElem
						pre := r.IntN(2)
						if pre == 1 {
							cp = append(cp, step("face_up", ""))
						}
						for _, e := range src {
							cp = append(cp, step(e.Name, e.Mult))
						}
						c.Args = append(c.Args, &spec.Arg{Moves: cp})
					case 1:
						c.Args = append(c.Args, &spec.Arg{Text: textVariants[r.IntN(len(textVariants))]()})
					default:
						c.Args = append(c.Args, &spec.Arg{Toks: []string{"1"}})
					}
				}
				sc.Body.Stmts = append(sc.Body.Stmts, &spec.CmdStmt{Cmd: c})
			}
			prog.Items = append(prog.Items, sc)
		}
		src := spec.Source(prog)
		k.SetSource(src)
		res := h.Compile(src, optsOf(prog, true))
		k.Count("evaluations", 1)
		if !res.OK() {
			k.Count("rejected", 1)
			k.Count("rejected: "+rejectFamily(res.ErrString()), 1)
			rejectedValid(k, prog, res, true)
			return
		}
		k.Count("accepted", 1)
		if hoistCheck(k, prog, res.Out, "adversarial") {
			lm := buildLabelModel(prog)
			k.Nontrivial("adv", len(lm.Texts), len(lm.Moves), len(res.Out)%31)
			k.Count("adversarial_files_checked", 1)
		}
	})
	// clashes between a user text/movement and a generated name must be errors
	ctx.RunCases("clashes", ctx.N(1500, 40000), func(k *h.Case) {
		g := spec.NewGen(k.R, prof)
		g.Prog.Items = append(g.Prog.Items, g.Script())
		if k.R.IntN(2) == 0 {
			g.Prog.Items = append(g.Prog.Items, g.Script())
		}
		prog := g.Prog
		for _, key := range prof.PoryKeys {
			// matching a named case, falling back to '_', or (rarely) an empty value
			prog.Switches[key] = []string{"RUBY", "SAPPHIRE", "OTHER", "OTHER", ""}[k.R.IntN(5)]
		}
		rp, rerr := spec.Resolve(prog, prog.Switches)
		if rerr != nil {
			return
		}
		lm := buildLabelModel(rp)
		if lm.Err != nil || len(lm.Texts)+len(lm.Moves) == 0 {
			return
		}
		// pick a generated label and define a user item of the same kind with that name
		var clash spec.Item
		var what string
		pick := k.R.IntN(len(lm.Texts) + len(lm.Moves))
		if pick < len(lm.Texts) {
			what = lm.Texts[pick].Label
		} else {
			what = lm.Moves[pick-len(lm.Texts)].Label
		}
		nearMiss := k.R.IntN(5) == 0
		if nearMiss {
			// the same shape with an index no generated label has: no clash, the file must keep compiling
			what = what[:strings.LastIndex(what, "_")+1] + fmt.Sprint(90+k.R.IntN(9))
		}
		// (one time in three the user item is of the OTHER family: a movement named like a hoisted text label or
		// a text named like a hoisted movement label is a clash just the same)
		if (pick < len(lm.Texts)) != (k.R.IntN(3) == 0) {
			clash = &spec.TextItem{ID: prog.NewID(), Name: what, Val: &spec.TextVal{ID: prog.NewID(), Parts: []string{"user text"}}}
		} else {
			clash = &spec.MovementItem{ID: prog.NewID(), Name: what, Steps: []*spec.ListElem{{ID: prog.NewID(), Name: "walk_up"}}}
		}
		if k.R.IntN(2) == 0 {
			// the user item repeats the generated one's content word for word: still two definitions of one name
			if ti, ok := clash.(*spec.TextItem); ok && pick < len(lm.Texts) {
				f := lm.Texts[pick].First
				ti.Val = &spec.TextVal{ID: prog.NewID(), Type: f.Type, Parts: append([]string{}, f.Parts...), Format: f.Format}
				k.Count("clashes_with_identical_content", 1)
			} else if mi, ok := clash.(*spec.MovementItem); ok && pick >= len(lm.Texts) {
				mi.Steps = nil
				for _, st := range lm.Moves[pick-len(lm.Texts)].Steps {
					mi.Steps = append(mi.Steps, &spec.ListElem{ID: prog.NewID(), Name: st})
				}
				k.Count("clashes_with_identical_content", 1)
			}
		}
		at := k.R.IntN(len(prog.Items) + 1)
		items := append([]spec.Item{}, prog.Items[:at]...)
		items = append(items, clash)
		prog.Items = append(items, prog.Items[at:]...)
		pr := layoutOf(k, prog, 0.15)
		k.SetSource(pr.Src)
		res := h.Compile(pr.Src, optsOf(prog, true))
		k.Count("evaluations", 1)
		if res.Panic != nil {
			k.Violation("clash-panic", fmt.Sprintf("panic instead of an error for a clash on %q: %v", what, res.Panic), nil)
			return
		}
		if nearMiss {
			if res.Err != nil {
				if !strings.Contains(res.ErrString(), "no poryswitch case found") {
					k.Violation("near-miss-rejected", fmt.Sprintf("a text/movement named %q (shaped like a generated label, equal to none) makes the file fail: %s", what, res.ErrString()), nil)
				}
				return
			}
			f := asm.Parse(res.Out)
			for name, defs := range f.Labels {
				if len(defs) > 1 {
					k.Violation("near-miss-duplicates", fmt.Sprintf("with a text/movement named %q label %q is defined %d times", what, name, len(defs)), map[string]interface{}{"output": res.Out})
					return
				}
			}
			k.Count("near_miss_names_accepted", 1)
			return
		}
		if res.Err == nil {
			k.Violation("clash-accepted", fmt.Sprintf("user-defined %q clashes with a generated label but the program was accepted", what), map[string]interface{}{"output": res.Out})
			return
		}
		if msg := res.ErrString(); !strings.Contains(msg, "duplicate") && !strings.Contains(msg, "no poryswitch case found") {
			// rejected, but not as a clash: the clash itself went unnoticed
			k.C.Inconclusive("a file with a label clash on %q is rejected for another reason: %s", what, rejectFamily(msg))
		}
		k.Count("clashes_rejected", 1)
		k.Nontrivial("clash", pick < len(lm.Texts), at)
	})
	rejectGuard(ctx, 0.4)
	return ctx.Finish(
		"files of several scripts / inline map scripts whose commands carry inline strings (plain, typed, format()) and moves() in every position (straight-line, control constructs, AutoVar conditions and switch operands, poryswitch cases) drawn from a small pool so repeats are frequent. Oracle = independent model of the documented rule (per-owner numbering in order of first appearance, file-wide sharing by (content,type) / expanded step list): every argument slot holds the predicted label; each predicted label is defined once, local, with exactly the predicted content; no other _Text_/_Movement_ label exists. Clash workload: a user text/movement named like a generated label must be rejected. distinct = distinct multiset signature of hoisted items (type, length, uses)",
		ctx.N(500, 5000),
		[]string{"format() content is obtained from the real FormatText with the repository defaults (C07 judges that function)", "moves() lists with a step_end in the middle are not generated here (C14 owns truncation)"})
}
