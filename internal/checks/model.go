package checks

import (
	"fmt"
	"strconv"
	"strings"

	"github.com/huderlem/poryscript/parser"

	"verif.local/pvmon/internal/h"
	"verif.local/pvmon/internal/spec"
)

// labelModel is the independent model of the documented hoisting rule:
// inline texts / moves() get `<owner>_Text_<n>` / `<owner>_Movement_<n>`,
// numbered per owner in order of first appearance, shared file-wide when the
// (content, type) / step list is identical.
type labelModel struct {
	TextLabel  map[*spec.TextVal]string
	MovesLabel map[*spec.Arg]string
	Texts      []*hoistedText
	Moves      []*hoistedMoves
	Err        error // e.g. format() could not be evaluated
}

type hoistedText struct {
	Label   string
	Type    string
	Content string // processed literal (parts joined by "\n", terminator applied)
	First   *spec.TextVal
	Uses    int
}

type hoistedMoves struct {
	Label string
	Steps []string // expanded
	First *spec.Arg
	Uses  int
}

var textSuffix = map[string]string{"": "$", "ascii": `\0`, "braille": "$"}

// processedText computes the content a text value denotes after terminator
// (and format()) processing. fonts is used only for format().
func processedText(t *spec.TextVal, fmtFn func(t *spec.TextVal, lit string) (string, error)) (string, error) {
	// a line break written inside the quotes, with the white space that follows it, stands for one blank
	parts := make([]string, len(t.Parts))
	for i, p := range t.Parts {
		parts[i] = newlineRunRe.ReplaceAllString(p, " ")
	}
	lit := strings.Join(parts, "\n")
	if t.Format != nil {
		if fmtFn == nil {
			return "", fmt.Errorf("format() not supported by this model instance")
		}
		f, err := fmtFn(t, lit)
		if err != nil {
			return "", err
		}
		lit = f
	}
	if suf, ok := textSuffix[t.Type]; ok && !strings.HasSuffix(lit, suf) {
		lit += suf
	}
	return lit, nil
}

// expandSteps expands `step * N` and drops nothing else.
func expandSteps(es []*spec.ListElem) []string {
	var out []string
	for _, e := range es {
		if e.Name == "," {
			continue // a stray comma, ignored by the grammar
		}
		n := 1
		if e.Mult != "" {
			v, err := strconv.ParseInt(e.Mult, 0, 64)
			if err == nil {
				n = int(v)
			}
		}
		for i := 0; i < n; i++ {
			out = append(out, e.Name)
		}
	}
	return out
}

// defaultFormat formats with the repository font config, the parameters the format() call gives and the font defaults for the rest
// by calling the real FormatText: C07
// judges that function, here it only supplies the content to compare with.
func defaultFormat(t *spec.TextVal, lit string) (string, error) {
	fc, err := parser.LoadFontConfig(h.RepoDir + "/font_config.json")
	if err != nil {
		return "", err
	}
	id := fc.DefaultFontID
	if t.Format.FontID != "" {
		id = t.Format.FontID
	}
	f, ok := fc.Fonts[id]
	if !ok {
		return "", fmt.Errorf("font %q is not in the repository font config", id)
	}
	width, nl, cursor := f.MaxLineLength, f.NumLines, f.CursorOverlapWidth
	if t.Format.MaxLineLength > 0 {
		width = t.Format.MaxLineLength
	}
	if t.Format.NumLines > 0 {
		nl = t.Format.NumLines
	}
	if t.Format.CursorWidth > 0 {
		cursor = t.Format.CursorWidth
	}
	if nl <= 0 {
		nl = 2
	}
	return fc.FormatText(lit, width, cursor, id, nl)
}

func buildLabelModel(p *spec.Program) *labelModel {
	m := &labelModel{TextLabel: map[*spec.TextVal]string{}, MovesLabel: map[*spec.Arg]string{}}
	type tkey struct{ content, typ string }
	textSet := map[tkey]*hoistedText{}
	movSet := map[string]*hoistedMoves{}
	textCount := map[string]int{}
	movCount := map[string]int{}
	type pend struct {
		owner string
		arg   *spec.Arg
	}
	flush := func(ps []pend) {
		for _, x := range ps {
			if x.arg.Text == nil {
				continue
			}
			c, err := processedText(x.arg.Text, defaultFormat)
			if err != nil {
				m.Err = err
				continue
			}
			k := tkey{c, x.arg.Text.Type}
			if ht, ok := textSet[k]; ok {
				m.TextLabel[x.arg.Text] = ht.Label
				ht.Uses++
				continue
			}
			ht := &hoistedText{Label: fmt.Sprintf("%s_Text_%d", x.owner, textCount[x.owner]), Type: x.arg.Text.Type, Content: c, First: x.arg.Text, Uses: 1}
			textCount[x.owner]++
			textSet[k] = ht
			m.Texts = append(m.Texts, ht)
			m.TextLabel[x.arg.Text] = ht.Label
		}
		for _, x := range ps {
			if x.arg.Moves == nil {
				continue
			}
			steps := expandSteps(x.arg.Moves)
			k := strings.Join(steps, ":") + ":"
			if hm, ok := movSet[k]; ok {
				m.MovesLabel[x.arg] = hm.Label
				hm.Uses++
				continue
			}
			hm := &hoistedMoves{Label: fmt.Sprintf("%s_Movement_%d", x.owner, movCount[x.owner]), Steps: steps, First: x.arg, Uses: 1}
			movCount[x.owner]++
			movSet[k] = hm
			m.Moves = append(m.Moves, hm)
			m.MovesLabel[x.arg] = hm.Label
		}
	}
	collect := func(owner string, b *spec.Block, ps *[]pend) {
		allCmds(b, func(c *spec.Cmd) {
			for _, a := range c.Args {
				if a.Text != nil || a.Moves != nil {
					*ps = append(*ps, pend{owner, a})
				}
			}
		})
	}
	for _, it := range p.Items {
		switch x := it.(type) {
		case *spec.Script:
			var ps []pend
			collect(x.Name, x.Body, &ps)
			flush(ps)
		case *spec.MapScripts:
			var ps []pend
			for _, e := range x.Entries {
				if e.Kind == 1 {
					collect(x.Name+"_"+e.Type, e.Body, &ps)
				}
				if e.Kind == 2 {
					for i, r := range e.Rows {
						if r.Body != nil {
							collect(fmt.Sprintf("%s_%s_%d", x.Name, e.Type, i), r.Body, &ps)
						}
					}
				}
			}
			flush(ps)
		}
	}
	return m
}

// renderCmd gives the expected output text of a command (without the tab):
// name, then the arguments joined by ", ", each argument its tokens joined by
// one space, inline text / moves() replaced by the model's label.
func (m *labelModel) renderCmd(c *spec.Cmd) string {
	var args []string
	for _, a := range c.Args {
		switch {
		case a.Text != nil:
			args = append(args, m.TextLabel[a.Text])
		case a.Moves != nil:
			args = append(args, m.MovesLabel[a])
		default:
			args = append(args, strings.ReplaceAll(strings.Join(a.Toks, " "), "\x01", ""))
		}
	}
	// a comma directly before the closing parenthesis is a trailing comma, not a separator: the (empty)
	// argument after it does not exist
	if n := len(c.Args); n > 0 && c.Args[n-1].Text == nil && c.Args[n-1].Moves == nil && len(c.Args[n-1].Toks) == 0 {
		args = args[:n-1]
	}
	if len(args) == 0 {
		return c.Name
	}
	return c.Name + " " + strings.Join(args, ", ")
}

// normTokens re-tokenises a rendered command line: whitespace is dropped and
// `,` `(` `)` are separate tokens, so only the token sequence is compared
// ("spacing normalised").
func normTokens(s string) []string {
	var out []string
	var cur strings.Builder
	flush := func() {
		if cur.Len() > 0 {
			out = append(out, cur.String())
			cur.Reset()
		}
	}
	for _, r := range s {
		switch {
		case r == ' ' || r == '\t':
			flush()
		case r == ',' || r == '(' || r == ')':
			flush()
			out = append(out, string(r))
		default:
			cur.WriteRune(r)
		}
	}
	flush()
	return out
}

func normLine(s string) string { return strings.Join(normTokens(s), " ") }
