package checks

import (
	"fmt"
	"regexp"
	"strings"

	"verif.local/pvmon/internal/asm"
	"verif.local/pvmon/internal/h"
	"verif.local/pvmon/internal/spec"
)

func init() { Registry["C09"] = runC09 }

var c09Pieces = []string{"3000", "Level 10", "0", "Hello", "there", "é", "ポケモン", "{PLAYER}", `\n`, `\p`, `\l`, "$", `\0`, "#", "//", "`", "'", "{", "}", "(", ")", ",", ":", "  ", " ", "x", "100%", "a=b", "<>", "!", "&&", "tab\there", `\`, "$$", "€", "@", "\uFFFD", "Pok\uFFFDmon", "\uFEFF", "\u2028"}

var newlineRunRe = regexp.MustCompile(`[\r\n][ \t\r\n]*`)

// c09Text builds a text value with hostile content. multiline: allow a raw
// line break plus indentation inside a literal part.
func c09Text(k *h.Case, prog *spec.Program) *spec.TextVal {
	r := k.R
	t := &spec.TextVal{ID: prog.NewID()}
	switch r.IntN(5) {
	case 0:
		t.Type = "ascii"
	case 1:
		t.Type = "braille"
	case 2:
		t.Type = []string{"custom", "utf8", "ümlaut", "text", "script", "moves", "string", "asciz"}[r.IntN(8)]
	}
	nparts := 1 + r.IntN(4)
	if r.IntN(3) == 0 {
		nparts = 1
	}
	for i := 0; i < nparts; i++ {
		var sb strings.Builder
		n := 1 + r.IntN(5)
		for j := 0; j < n; j++ {
			sb.WriteString(c09Pieces[r.IntN(len(c09Pieces))])
		}
		s := sb.String()
		if r.IntN(60) == 0 {
			// a very long line (around typical buffer sizes) with multi-byte characters across the boundary
			n := []int{250, 505, 995, 1019, 2040, 4090}[r.IntN(6)] + r.IntN(8)
			s = strings.Repeat("x", n) + "ÉポÉポ😀ÉポÉ" + s
		}
		if r.IntN(10) == 0 && len(s) > 2 {
			// a line break + indentation inside the literal (never right before the closing quote)
			cut := 1 + r.IntN(len(s)-1)
			for cut < len(s) && !isRuneStart(s[cut]) {
				cut++
			}
			if cut < len(s) {
				cont := s[cut:]
				if r.IntN(3) == 0 {
					// the continuation line starts like a comment (it is text, not a comment)
					cont = []string{"#", "//", "# ", "// "}[r.IntN(4)] + cont
				}
				s = s[:cut] + []string{"\n", "\n    ", "\r\n\t", "\n\n  "}[r.IntN(4)] + cont
			}
		}
		t.Parts = append(t.Parts, s)
	}
	// terminator variants
	last := len(t.Parts) - 1
	switch r.IntN(8) {
	case 0:
		t.Parts[last] += "$"
	case 1:
		t.Parts[last] += `\0`
	case 2:
		if last > 0 {
			t.Parts[0] += "$"
		}
	}
	return t
}

func isRuneStart(b byte) bool { return b&0xC0 != 0x80 }

// literalOf is the string value the parts denote: parts joined by a line
// break, a raw line break inside a part (with following white space) is one space.
func literalOf(t *spec.TextVal) string {
	var ps []string
	for _, p := range t.Parts {
		ps = append(ps, newlineRunRe.ReplaceAllString(p, " "))
	}
	return strings.Join(ps, "\n")
}

func expectedLinesOfText(t *spec.TextVal) ([]string, error) {
	lit := literalOf(t)
	if t.Format != nil {
		f, err := defaultFormat(t, lit)
		if err != nil {
			return nil, err
		}
		lit = f
	}
	if suf, ok := textSuffix[t.Type]; ok && !strings.HasSuffix(lit, suf) {
		lit += suf
	}
	return expectedTextLines(lit, t.Type), nil
}

func runC09(ctx *h.Ctx) int {
	ctx.RunCases("texts", ctx.N(40000, 800000), func(k *h.Case) {
		g := spec.NewGen(k.R, spec.Profile{})
		prog := g.Prog
		prog.Switches["LANG"] = []string{"EN", "DE", "zz"}[k.R.IntN(3)]
		type exp struct {
			label  string
			t      *spec.TextVal
			origin string
			global bool
		}
		var exps []exp
		n := 1 + k.R.IntN(4)
		script := &spec.Script{ID: prog.NewID(), Name: g.Name("Scr"), Body: &spec.Block{ID: prog.NewID()}}
		useScript := false
		for i := 0; i < n; i++ {
			t := c09Text(k, prog)
			if k.R.IntN(6) == 0 {
				t.Format = &spec.Format{}
			}
			switch k.R.IntN(3) {
			case 0: // text statement
				it := &spec.TextItem{ID: prog.NewID(), Name: g.Name("Txt"), Scope: k.R.IntN(3), Val: t}
				prog.Items = append(prog.Items, it)
				exps = append(exps, exp{it.Name, t, "text-statement", scopeGlobal(it.Scope, true)})
			case 1: // poryswitch text case
				it := &spec.TextItem{ID: prog.NewID(), Name: g.Name("Txt"), Scope: k.R.IntN(3)}
				other := c09Text(k, prog)
				fb := c09Text(k, prog)
				ps := &spec.PSText{Key: "LANG", Cases: []*spec.PSTextCase{
					{Name: "EN", Brace: k.R.IntN(2) == 0, Val: t},
					{Name: "DE", Brace: k.R.IntN(2) == 0, Val: other},
					{Name: "_", Brace: k.R.IntN(2) == 0, Val: fb},
				}}
				k.R.Shuffle(3, func(i, j int) { ps.Cases[i], ps.Cases[j] = ps.Cases[j], ps.Cases[i] })
				it.PS = ps
				prog.Items = append(prog.Items, it)
				sel := t
				org := "poryswitch-case"
				switch prog.Switches["LANG"] {
				case "DE":
					sel = other
				case "zz":
					sel = fb
					org = "poryswitch-fallback"
				}
				exps = append(exps, exp{it.Name, sel, org, scopeGlobal(it.Scope, true)})
			default: // inline argument
				c := &spec.Cmd{ID: prog.NewID(), Name: g.Name("msgbox"), Args: []*spec.Arg{{Text: t}}}
				exps = append(exps, exp{"", t, "inline", false})
				// further string arguments of the same command (typed before plain, plain before typed, ...)
				for extra := k.R.IntN(3); extra > 0; extra-- {
					t2 := c09Text(k, prog)
					c.Args = append(c.Args, &spec.Arg{Text: t2})
					exps = append(exps, exp{"", t2, "inline", false})
					k.Count("commands_with_several_string_arguments", 1)
				}
				script.Body.Stmts = append(script.Body.Stmts, &spec.CmdStmt{Cmd: c})
				useScript = true
			}
		}
		if useScript {
			at := k.R.IntN(len(prog.Items) + 1)
			items := append([]spec.Item{}, prog.Items[:at]...)
			items = append(items, script)
			prog.Items = append(items, prog.Items[at:]...)
		}
		pr := layoutOf(k, prog, 0.25)
		k.SetSource(pr.Src)
		res := h.Compile(pr.Src, optsOf(prog, true))
		k.Count("evaluations", 1)
		if !res.OK() {
			k.Count("rejected", 1)
			k.Count("rejected: "+rejectFamily(res.ErrString()), 1)
			debugReject(pr.Src, res.ErrString())
			rejectedValid(k, prog, res, true)
			return
		}
		k.Count("accepted", 1)
		f := asm.Parse(res.Out)
		// inline texts: label read from the emitted command line
		for i := range exps {
			e := &exps[i]
			if e.origin != "inline" {
				continue
			}
			for _, st := range script.Body.Stmts {
				c := st.(*spec.CmdStmt).Cmd
				for ai, a := range c.Args {
					if a.Text != e.t {
						continue
					}
					for j := range f.Lines {
						if f.Lines[j].Kind == asm.KInstr && f.Lines[j].Op == c.Name {
							parts := strings.Split(f.Lines[j].Args, ",")
							if ai < len(parts) {
								e.label = strings.TrimSpace(parts[ai])
							}
						}
					}
				}
			}
		}
		for _, e := range exps {
			want, err := expectedLinesOfText(e.t)
			if err != nil {
				k.C.Inconclusive("cannot evaluate format(): %v", err)
				return
			}
			defs := f.Labels[e.label]
			if len(defs) != 1 {
				k.Violation("text-label", fmt.Sprintf("%s text: label %q is defined %d times", e.origin, e.label, len(defs)), map[string]interface{}{"output": res.Out})
				return
			}
			got, _ := textBlock(f, defs[0])
			if !eqStrings(got, want) {
				k.Violation("", fmt.Sprintf("%s text %q (type %q, %d parts, format=%v):\n emitted  %q\n expected %q", e.origin, e.label, e.t.Type, len(e.t.Parts), e.t.Format != nil, got, want), map[string]interface{}{"output": res.Out})
				return
			}
			if e.origin != "inline" && f.Lines[defs[0]].Global != e.global {
				k.Violation("text-scope", fmt.Sprintf("text %q exported=%v, expected %v", e.label, f.Lines[defs[0]].Global, e.global), nil)
				return
			}
			k.Count("texts_checked", 1)
			k.Count("origin:"+e.origin, 1)
			ty := e.t.Type
			if ty != "" && ty != "ascii" && ty != "braille" {
				ty = "other"
			}
			k.Count("type:"+ty, 1)
			lit := literalOf(e.t)
			already := false
			if suf, ok := textSuffix[e.t.Type]; ok && strings.HasSuffix(lit, suf) {
				already = true
				k.Count("already_terminated", 1)
			}
			k.Count("directive_lines_checked", int64(len(want)))
			k.Nontrivial(e.origin, ty, len(e.t.Parts), already, e.t.Format != nil, len(want), strings.Contains(strings.Join(e.t.Parts, ""), "\n"))
		}
		k.Sample("texts", pr.Src)
	})
	rejectGuard(ctx, 0.05)
	return ctx.Finish(
		"texts from every origin (inline argument, text statement, poryswitch text case incl. '_' fallback and brace/colon forms, format() of each) x string type (none, ascii, braille, other identifiers incl. multi-byte) x contents: 1..4 literal parts, raw line breaks + indentation inside a part, multi-byte characters, comment markers, back-ticks, braces, backslash codes, contents already ending in '$' or '\\0', terminator only in an earlier part. Oracle: directive = .string or the written type; one directive per literal part in order, each equal to the part (inner line break -> one space); terminator of the type exactly once at the end, not doubled. distinct = (origin, type class, parts, already terminated, format, lines, multi-line)",
		ctx.N(300, 700),
		[]string{"empty literal parts and a closing quote directly after a line break are not generated (lexer limitations that reject or alter the literal before this property applies)", "for format() the line structure is taken from the real FormatText (C07)"})
}
