package checks

import (
	"errors"
	"fmt"
	"github.com/huderlem/poryscript/parser"
	"sort"
	"strings"

	"verif.local/pvmon/internal/h"
	"verif.local/pvmon/internal/spec"
)

func init() { Registry["C11"] = runC11 }

func hasAutoLeaf(c spec.Cond) bool {
	var ls []*spec.Leaf
	condLeaves(c, &ls)
	for _, l := range ls {
		if l.Kind == spec.LeafAuto {
			return true
		}
	}
	return false
}

func runC11(ctx *h.Ctx) int {
	// 1. AutoVar leaves mixed with ordinary leaves: complete truth tables
	ctx.RunCases("autovar-conditions", ctx.N(6000, 300000), func(k *h.Case) {
		p := spec.Profile{MaxLeaves: 1 + k.Index%6, PAuto: 0.6, ValueFn: 0.15, PTextArg: 0.2, PMovesArg: 0.05, RichArgs: k.Index%3 == 0, PRepeatAuto: 0.3}
		g := spec.NewGen(k.R, p)
		c := g.CondTree(p.MaxLeaves)
		if !hasAutoLeaf(c) {
			k.Count("without_autovar_leaf", 1)
			return
		}
		prog, leaves := condProgram(g, c, k.R.IntN(5))
		if checkCondProgram(k, prog, leaves, 243, nil) {
			nAuto, nPos := 0, 0
			for _, l := range leaves {
				if l.Kind == spec.LeafAuto {
					nAuto++
					if prog.AutoVars[l.Auto.Name].ArgPos >= 0 {
						nPos++
					}
				}
			}
			k.Count("autovar_leaves", int64(nAuto))
			k.Count("autovar_leaves_arg_position", int64(nPos))
			k.Nontrivial(shapeOfCond(c), nPos)
			k.Sample("autovar-condition", map[string]interface{}{"source": spec.Source(prog), "config": prog.AutoVars})
		}
	})
	// 2. every skeleton up to 3 leaves with every leaf an AutoVar / alternating
	maxN := 3
	var all []*shape
	for n := 1; n <= maxN; n++ {
		all = append(all, enumShapes(n, map[int]int{1: 2, 2: 2}[n])...)
	}
	ctx.RunCases("autovar-skeletons", len(all)*ctx.N(2, 6), func(k *h.Case) {
		sh := all[k.Index%len(all)]
		mode := k.Index / len(all)
		g := spec.NewGen(k.R, spec.Profile{PAuto: 1, LeafKinds: []string{spec.LeafVar}, PTextArg: 0.15})
		gm := spec.NewGen(k.R, spec.Profile{})
		gm.Prog = g.Prog
		i := 0
		c := sh.build(func() spec.Cond {
			i++
			if mode%2 == 1 && i%2 == 0 {
				return gm.LeafCond()
			}
			return g.LeafCond()
		})
		prog, leaves := condProgram(g, c, mode+k.R.IntN(5))
		if checkCondProgram(k, prog, leaves, 243, nil) {
			k.Nontrivial("skeleton", sh.String(), mode%2)
		}
	})
	ctx.Exhaustive("condition skeletons with AutoVar leaves", int64(len(all)), "every and/or/not skeleton with 1..3 leaves, all leaves AutoVar and alternating AutoVar/ordinary, complete truth tables")
	// 3. AutoVar switch operands in the six switch contexts
	lists := enumCaseLists(2)
	lists = append(lists, enumCaseLists(1)...)
	if !ctx.Quick() {
		lists = append(lists, enumCaseLists(3)...)
	}
	ctx.RunCases("autovar-switch", len(lists)*nSwitchContexts, func(k *h.Case) {
		kinds := lists[k.Index/nSwitchContexts]
		g := spec.NewGen(k.R, spec.Profile{PTextArg: 0.2})
		sw := buildSwitch(g, kinds)
		sw.Operand = nil
		sw.Auto, _ = g.AutoCmd()
		body, pins := inContext(g, sw, k.Index%nSwitchContexts)
		g.Prog.Items = append(g.Prog.Items, &spec.Script{ID: g.Prog.NewID(), Name: g.Name("Scr"), Body: body})
		if checkSwitchProgramX(k, g.Prog, []int{0, 1, 2}, pins, 3, true) {
			k.Count("autovar_switches", 1)
		}
	})
	// 4. loops and nesting: AutoVar leaves inside full programs, states change after every command
	prof := profC01()
	prof.PAuto, prof.MaxLeaves, prof.PTextArg, prof.NoRedundantPar, prof.PRepeatAuto = 0.5, 3, 0.1, false, 0.25
	ctx.RunCases("autovar-in-programs", ctx.N(2500, 100000), func(k *h.Case) {
		prof := prof
		if k.Index%3 == 1 {
			// statement poryswitches: AutoVar conditions and switches written directly in a poryswitch case
			prof.PoryKeys, prof.WPory, prof.WSwitch = []string{"GAME", "LANG"}, 10, 10
		}
		if k.Index%3 == 2 {
			// long if / elif chains whose arms mostly repeat one AutoVar command token for token: every arm that is
			// reached runs the command again (its result may differ each time), none may be dropped as a duplicate
			prof.PRepeatAuto, prof.MaxElif, prof.WIf, prof.PAuto, prof.MaxLeaves = 0.7, 3, 30, 0.7, 2
		}
		g, prog := genScripts(k, prof, 1)
		for _, key := range prof.PoryKeys {
			prog.Switches[key] = []string{"RUBY", "SAPPHIRE", "EMERALD", "1", "OTHER"}[k.R.IntN(5)]
			k.Count("programs_with_statement_poryswitch", 1)
		}
		if k.Index%3 == 0 {
			// a constant spelled like the configured result var of an AutoVar command: the compared var
			// comes from the command config and is not a use of that constant
			var names []string
			for n, av := range prog.AutoVars {
				if av.ArgPos < 0 {
					names = append(names, av.VarName)
				}
				_ = n
			}
			sort.Strings(names)
			if len(names) > 0 {
				prog.Items = append([]spec.Item{&spec.Const{ID: prog.NewID(), Name: names[k.R.IntN(len(names))], Value: []string{"VAR_TEMP_9"}}}, prog.Items...)
				k.Count("programs_with_constant_spelled_like_result_var", 1)
			}
		}
		pr := layoutOf(k, prog, 0.15)
		k.SetSource(pr.Src)
		rp, rerr := spec.Resolve(prog, prog.Switches)
		if rerr != nil {
			k.Count("no_poryswitch_case_selected", 1)
			if res := h.Compile(pr.Src, optsOf(prog, true)); res.OK() {
				acceptedUnmatched(k)
			}
			return
		}
		lm := buildLabelModel(rp)
		for _, opt := range []bool{true, false} {
			res := h.Compile(pr.Src, optsOf(prog, opt))
			k.Count("evaluations", 1)
			if !res.OK() {
				k.Count("rejected", 1)
				k.Count("rejected: "+rejectFamily(res.ErrString()), 1)
				rejectedValid(k, prog, res, true)
				return
			}
			k.Count("accepted", 1)
			if !vmCheck(k, rp, res.Out, vmCheckOpts{NStates: ctx.N(6, 16), Full: true, Render: lm.renderCmd, Cands: g.Cands(), Orig: prog, Optimize: opt}, fmt.Sprintf("optimize=%v", opt)) {
				return
			}
		}
		if len(prog.AutoVars) > 0 {
			k.Nontrivial("prog", shapeOfBlock(scriptsOf(rp)[0].Body))
		}
	})
	// 5. the command config read from a JSON file by the CLI gives the same output
	ctx.RunCases("config-via-cli", ctx.N(40, 400), func(k *h.Case) {
		p := spec.Profile{MaxLeaves: 3, PAuto: 0.7, PTextArg: 0.1}
		g := spec.NewGen(k.R, p)
		c := g.CondTree(3)
		prog, _ := condProgram(g, c, k.R.IntN(5))
		src := spec.Source(prog)
		k.SetSource(src)
		lib := h.Compile(src, optsOf(prog, true))
		dir := workDir(k)
		defer cleanWork(dir)
		var modes []string
		if k.R.IntN(2) == 0 {
			// -cc given twice: the later file is the command config (the earlier one configures the same commands
			// the other way round and must have no influence)
			modes = append(modes, "repeated-cc")
			k.Count("cli_runs_with_repeated_cc", 1)
		}
		cli := runCLIFull(dir, src, prog, optsOf(prog, true), k.R.IntN(3) == 0, false, modes...)
		k.Count("evaluations", 2)
		if cli.Err != nil {
			k.C.Inconclusive("cannot run CLI: %v", cli.Err)
			return
		}
		if lib.OK() != (cli.Exit == 0) {
			k.Violation("cli-accept-differs", fmt.Sprintf("library: %q, CLI exit %d stderr %q", lib.ErrString(), cli.Exit, firstLineOf(cli.Stderr)), nil)
			return
		}
		if lib.OK() && lib.Out != cli.Out {
			k.Violation("cli-output-differs", "CLI output with a JSON command config differs from the library output with the same config", map[string]interface{}{"library": lib.Out, "cli": cli.Out})
			return
		}
		k.Count("cli_runs_equal", 1)
	})
	// the argument at the configured position is an inline text, a moves() list or empty: there is no var to compare.
	// Either a located error, or - if accepted - the comparison must name what the argument was rendered as
	ctx.RunCases("position-without-var", ctx.N(300, 6000), func(k *h.Case) {
		g := spec.NewGen(k.R, spec.Profile{})
		prog := g.Prog
		name := g.Name("posav")
		pos := k.R.IntN(2)
		prog.AutoVars[name] = spec.AutoVar{ArgPos: pos}
		var bad *spec.Arg
		what := ""
		switch k.R.IntN(3) {
		case 0:
			bad, what = &spec.Arg{Text: &spec.TextVal{ID: prog.NewID(), Parts: []string{"not a var"}}}, "inline text"
		case 1:
			bad, what = &spec.Arg{Moves: []*spec.ListElem{{ID: prog.NewID(), Name: "walk_up"}}}, "moves()"
		default:
			bad, what = &spec.Arg{}, "empty argument"
		}
		args := []*spec.Arg{{Toks: []string{"7"}}, {Toks: []string{"8"}}}
		args[pos] = bad
		if what == "empty argument" && pos == 1 {
			args = append(args, &spec.Arg{Toks: []string{"9"}}) // keep the empty argument interior
		}
		c := &spec.Cmd{ID: prog.NewID(), Name: name, Args: args}
		var st spec.Stmt
		body := &spec.Block{ID: prog.NewID(), Stmts: []spec.Stmt{&spec.CmdStmt{Cmd: g.Cmd()}}}
		if k.R.IntN(2) == 0 {
			st = &spec.If{ID: prog.NewID(), Arms: []*spec.Arm{{Cond: &spec.Leaf{ID: prog.NewID(), Kind: spec.LeafAuto, Auto: c, Op: "==", Value: []string{"1"}}, Body: body}}}
		} else {
			st = &spec.Switch{ID: prog.NewID(), Auto: c, Cases: []*spec.Case{{ID: prog.NewID(), Value: []string{"1"}, Body: body}}}
		}
		prog.Items = append(prog.Items, &spec.Script{ID: prog.NewID(), Name: g.Name("Scr"), Body: &spec.Block{ID: prog.NewID(), Stmts: []spec.Stmt{&spec.CmdStmt{Cmd: g.Cmd()}, st}}})
		src := spec.Source(prog)
		k.SetSource(src)
		res := h.Compile(src, optsOf(prog, k.R.IntN(2) == 0))
		k.Count("evaluations", 1)
		if res.Panic != nil {
			k.Violation("compiler-panic", fmt.Sprintf("panic: %v", res.Panic), nil)
			return
		}
		if res.Err != nil {
			var pe parser.ParseError
			if !errors.As(res.Err, &pe) || pe.LineNumberStart < 1 {
				k.Violation("position-without-var-unlocated", fmt.Sprintf("[%s at position %d] rejected without a source position: %v", what, pos, res.Err), nil)
				return
			}
			k.Count("position_without_var_rejected", 1)
			k.Nontrivial("posnovar", what, pos, "rejected")
			return
		}
		for _, ln := range strings.Split(res.Out, "\n") {
			t := strings.TrimSpace(ln)
			if strings.HasPrefix(t, "compare ,") || t == "switch" || strings.HasPrefix(t, "compare_var_to_value ,") {
				k.Violation("comparison-with-empty-operand", fmt.Sprintf("[%s at position %d] accepted, and the comparison has no operand: %q", what, pos, t), map[string]interface{}{"output": res.Out})
				return
			}
		}
		k.Count("position_without_var_accepted_with_operand", 1)
		k.Nontrivial("posnovar", what, pos, "accepted")
	})
	rejectGuard(ctx, 0.05)
	return ctx.Finish(
		"conditions and switches whose leaves / operand are AutoVar commands (config generated per program: fixed var name or argument position), mixed with ordinary leaves at every position; complete truth tables per expression, every skeleton up to 3 leaves, the six switch contexts, and full programs with loops under states that change after every command. Oracle: VM trace == reference trace on commands (full rendering per the command rule), tests (operand var = configured var / argument at configured position) and terminal, so the AutoVar command runs once per evaluation of its leaf in short-circuit order, not when short-circuited, again per iteration; no command between compare and jump (VM condition-register rule). A sample is also compiled through the CLI with the config in a JSON file. distinct = condition/program signature",
		ctx.N(500, 5000),
		[]string{"AutoVar command names are unique per program"})
}
