package checks

import "verif.local/pvmon/internal/c19"

func init() { Registry["C19"] = c19.Run }
