package checks

import (
	"fmt"
	"sort"
	"strings"

	"verif.local/pvmon/internal/h"
	"verif.local/pvmon/internal/spec"
)

func init() { Registry["C13"] = runC13 }

type constDef struct {
	name    string
	value   []string // as written (may use earlier constants as "$NAME")
	expand  []string // fully expanded
	isIdent bool     // expansion is a single identifier (usable as a mart item)
	paren   bool     // expansion contains parentheses (only legal where nesting is allowed)
	at      int      // index of the first top-level item that may use it
	isBool  bool     // value is one of true/TRUE/false/FALSE
}

var constValuePool = [][]string{{"3"}, {"FLAG_TEMP_1", "+", "3", "-", "FLAG_BASE"}, {"A", "+", "B", "+", "C", "+", "D"}, {"VAR_X", "*", "2", "+", "OFFSET", "-", "1"}, {"ITEM_NONE"}, {"0x00ff"}, {"VAR_TEMP_1"}, {"FLAG_HIDE", "+", "1"}, {"0x4001"}, {"(", "2", "*", "3", ")"}, {"ITEM_FOO"}, {"-1"}, {"TRAINER_X"}, {"LOCALID_NPC"}, {"A_B", "C_D"}, {"type", "=", "MSGBOX_NPC"}, {"Nurse_Text_Heal", "kind", "=", "2"}}

func isIdentTok(s string) bool {
	if s == "" {
		return false
	}
	for i, r := range s {
		if !(r == '_' || (r >= 'A' && r <= 'Z') || (r >= 'a' && r <= 'z') || (i > 0 && r >= '0' && r <= '9')) {
			return false
		}
	}
	return true
}

// injectConsts rewrites documented use sites of the program to constant uses
// ("$NAME" tokens) and returns the definitions. Items are visited in order so
// that a constant is only used after its definition.
func injectConsts(k *h.Case, g *spec.Gen, prog *spec.Program) []*constDef {
	r := k.R
	n := 1 + r.IntN(6)
	var defs []*constDef
	var laterDefs []*spec.Const // constants defined at the very end of the file and used nowhere
	nItems := len(prog.Items)
	for i := 0; i < n; i++ {
		d := &constDef{name: g.Name([]string{"CONST_", "CONST_", "ÉTAGE_", "定数_"}[r.IntN(4)])}
		v := constValuePool[r.IntN(len(constValuePool))]
		d.value = append([]string{}, v...)
		if r.IntN(7) == 0 {
			d.value = []string{[]string{"true", "TRUE", "false", "FALSE"}[r.IntN(4)]}
			d.isBool = true
		} else if r.IntN(12) == 0 {
			// its own name, or the name of a constant that is only defined further down: plain identifiers at this
			// point (values are fixed when the definition is read)
			d.value = []string{d.name, "+", "1"}
			if r.IntN(2) == 0 {
				d.value = []string{"LATER_" + d.name, "*", "2"}
				laterDefs = append(laterDefs, &spec.Const{Name: "LATER_" + d.name, Value: []string{"77"}})
			}
		} else if len(defs) > 0 && r.IntN(2) == 0 {
			// defined from an earlier constant
			e := defs[r.IntN(len(defs))]
			switch r.IntN(3) {
			case 0:
				d.value = []string{"$" + e.name}
			case 1:
				d.value = []string{"$" + e.name, "+", "1"}
			default:
				d.value = []string{"(", "$" + e.name, ")", "*", "2"}
			}
			if e.at > d.at {
				d.at = e.at
			}
		}
		for _, t := range d.value {
			if strings.HasPrefix(t, "$") {
				for _, e := range defs {
					if e.name == t[1:] {
						d.expand = append(d.expand, e.expand...)
					}
				}
			} else {
				d.expand = append(d.expand, t)
			}
		}
		// (a keyword such as FALSE is not an identifier token: written out it is not a mart item)
		d.isBool = len(d.expand) == 1 && (d.expand[0] == "true" || d.expand[0] == "TRUE" || d.expand[0] == "false" || d.expand[0] == "FALSE")
		d.isIdent = len(d.expand) == 1 && isIdentTok(d.expand[0]) && !d.isBool
		for _, t := range d.expand {
			if t == "(" || t == ")" {
				d.paren = true
			}
		}
		if r.IntN(3) == 0 && nItems > 0 {
			if a := r.IntN(nItems); a > d.at {
				d.at = a
			}
		}
		defs = append(defs, d)
	}
	uses := 0
	pick := func(item int, needIdent bool, allowParen bool) (string, bool) {
		var el []*constDef
		for _, d := range defs {
			if d.at <= item && (!needIdent || d.isIdent) && (allowParen || !d.paren) {
				el = append(el, d)
			}
		}
		if len(el) == 0 {
			return "", false
		}
		uses++
		return "$" + el[r.IntN(len(el))].name, true
	}
	// early use: the NAME of a constant that is only defined further down the file, written at a use site. It
	// is an ordinary identifier there ("every later use"), so it is printed as a plain token in P and in P'.
	pickEarly := func(item int, needIdent bool) (string, bool) {
		var el []*constDef
		for _, d := range defs {
			if d.at > item && (!needIdent || d.isIdent) {
				el = append(el, d)
			}
		}
		if len(el) == 0 || r.IntN(5) != 0 {
			return "", false
		}
		return el[r.IntN(len(el))].name, true
	}
	sub := func(item int, toks []string, p float64, what string) []string {
		if len(toks) == 0 || r.Float64() >= p {
			return toks
		}
		if c, ok := pickEarly(item, false); ok && what != "autovar_arg" {
			out := append([]string{}, toks...)
			i := r.IntN(len(out))
			if out[i] == "(" || out[i] == ")" || out[i] == "," {
				return toks
			}
			out[i] = c
			k.Count("early_name_"+what, 1)
			return out
		}
		c, ok := pick(item, false, what == "command_arg" || what == "autovar_arg" || what == "value_fn")
		if !ok {
			return toks
		}
		out := append([]string{}, toks...)
		i := r.IntN(len(out))
		if out[i] == "(" || out[i] == ")" || out[i] == "," {
			return toks
		}
		out[i] = c
		k.Count("const_use_"+what, 1)
		if (what == "command_arg" || what == "autovar_arg") && r.IntN(6) == 0 && (i+1 == len(out) || out[i+1] != "(") {
			// the constant stands directly in front of a parenthesis (a constant naming a function-like macro, or
			// followed by a parenthesised sub-expression): still a use of the constant
			rest := append([]string{"(", []string{"MAP_ROUTE101", "2", "SPECIES_X"}[r.IntN(3)], ")"}, out[i+1:]...)
			out = append(out[:i+1:i+1], rest...)
			k.Count("const_use_directly_before_parenthesis", 1)
			return out
		}
		if r.IntN(10) == 0 {
			// a sign glued to the constant's name (`-LIMIT`): still a use of the constant. Only for constants whose
			// value starts with an identifier, so that the written-out form `-VALUE` lexes the same way
			for _, d := range defs {
				if "$"+d.name == c && len(d.expand) > 0 && isIdentTok(d.expand[0]) && !d.isBool {
					out[i] = "-" + c
					k.Count("const_use_with_glued_minus", 1)
				}
			}
		}
		return out
	}
	var cmd func(item int, c *spec.Cmd)
	cmd = func(item int, c *spec.Cmd) {
		if c == nil || c.Name == "goto" {
			return
		}
		for _, a := range c.Args {
			if a.Text == nil && a.Moves == nil {
				av, isAV := prog.AutoVars[c.Name]
				_ = av
				if isAV {
					a.Toks = sub(item, a.Toks, 0.3, "autovar_arg")
				} else {
					a.Toks = sub(item, a.Toks, 0.4, "command_arg")
				}
			}
		}
	}
	var cond func(item int, c spec.Cond)
	cond = func(item int, c spec.Cond) {
		switch x := c.(type) {
		case *spec.And:
			for _, kk := range x.Xs {
				cond(item, kk)
			}
		case *spec.Or:
			for _, kk := range x.Xs {
				cond(item, kk)
			}
		case *spec.Not:
			cond(item, x.X)
		case *spec.Paren:
			cond(item, x.X)
		case *spec.Leaf:
			if x.Auto != nil {
				cmd(item, x.Auto)
			} else {
				x.Operand = sub(item, x.Operand, 0.4, x.Kind+"_operand")
			}
			if x.Op != "" && (x.Kind == spec.LeafFlag || x.Kind == spec.LeafDefeated) && r.IntN(14) == 0 {
				var el []*constDef
				for _, d := range defs {
					if d.isBool && d.at <= item {
						el = append(el, d)
					}
				}
				if len(el) > 0 {
					x.Value = []string{"$" + el[r.IntN(len(el))].name}
					k.Count("const_use_flag_comparison_value(undocumented)", 1)
				}
			}
			if x.Op != "" && (x.Kind == spec.LeafVar || x.Kind == spec.LeafAuto) {
				if x.Raw {
					x.Value = sub(item, x.Value, 0.5, "value_fn")
				} else {
					x.Value = sub(item, x.Value, 0.5, "comparison_value")
				}
			}
		}
	}
	var blk func(item int, b *spec.Block)
	blk = func(item int, b *spec.Block) {
		if b == nil {
			return
		}
		for _, st := range b.Stmts {
			switch x := st.(type) {
			case *spec.CmdStmt:
				cmd(item, x.Cmd)
			case *spec.If:
				for _, a := range x.Arms {
					cond(item, a.Cond)
					blk(item, a.Body)
				}
				blk(item, x.Else)
			case *spec.While:
				if x.Cond != nil {
					cond(item, x.Cond)
				}
				blk(item, x.Body)
			case *spec.DoWhile:
				blk(item, x.Body)
				cond(item, x.Cond)
			case *spec.Switch:
				if x.Auto != nil {
					cmd(item, x.Auto)
				} else {
					x.Operand = sub(item, x.Operand, 0.4, "switch_operand")
				}
				for _, c := range x.Cases {
					if !c.Default {
						c.Value = sub(item, c.Value, 0.15, "case_value")
					}
					blk(item, c.Body)
				}
			case *spec.PorySwitch:
				for _, c := range x.Cases {
					blk(item, c.Body)
				}
			}
		}
	}
	for i, it := range prog.Items {
		switch x := it.(type) {
		case *spec.Script:
			blk(i, x.Body)
		case *spec.MartItem:
			for _, e := range x.Items {
				if e.PS == nil && r.IntN(2) == 0 {
					if c, ok := pickEarly(i, false); ok {
						e.Name = c
						k.Count("early_name_mart_item", 1)
						continue
					}
					if c, ok := pick(i, true, false); ok {
						e.Name = c
						k.Count("const_use_mart_item", 1)
					}
				}
			}
		case *spec.MapScripts:
			for _, e := range x.Entries {
				blk(i, e.Body)
				for _, row := range e.Rows {
					row.Var = sub(i, row.Var, 0.5, "table_var")
					row.Value = sub(i, row.Value, 0.5, "table_value")
					blk(i, row.Body)
				}
			}
		}
	}
	k.Count("const_uses", int64(uses))
	for _, c := range laterDefs {
		c.ID = prog.NewID()
		prog.Items = append(prog.Items, c)
		k.Count("constants_named_in_an_earlier_constants_value", 1)
	}
	return defs
}

// addDecoys adds identifiers equal to constant names at sites where constants
// must NOT be substituted.
func addDecoys(k *h.Case, g *spec.Gen, prog *spec.Program, defs []*constDef) {
	r := k.R
	names := []string{}
	for _, d := range defs {
		names = append(names, d.name)
	}
	r.Shuffle(len(names), func(i, j int) { names[i], names[j] = names[j], names[i] })
	next := func() (string, bool) {
		if len(names) == 0 {
			return "", false
		}
		n := names[0]
		names = names[1:]
		return n, true
	}
	var scripts []*spec.Script
	for _, it := range prog.Items {
		if s, ok := it.(*spec.Script); ok {
			scripts = append(scripts, s)
		}
	}
	// a constant whose NAME is the result var configured for an AutoVar command: the compared var comes
	// from the command config, not from a source token, so it is not substituted
	var avNames []string
	for name := range prog.AutoVars {
		avNames = append(avNames, name)
	}
	sort.Strings(avNames)
	for _, name := range avNames {
		av := prog.AutoVars[name]
		if av.ArgPos < 0 && r.IntN(2) == 0 {
			prog.Items = append([]spec.Item{&spec.Const{ID: prog.NewID(), Name: av.VarName, Value: []string{"VAR_TEMP_9"}}}, prog.Items...)
			k.Count("decoy_autovar_result_var", 1)
			for _, d := range defs {
				d.at++ // the item indices moved by one
			}
			break
		}
	}
	roles := r.Perm(10)
	for _, role := range roles {
		if r.IntN(2) == 0 {
			continue
		}
		n, ok := next()
		if !ok {
			return
		}
		switch role {
		case 0: // command name
			if len(scripts) > 0 {
				s := scripts[r.IntN(len(scripts))]
				s.Body.Stmts = append([]spec.Stmt{&spec.CmdStmt{Cmd: &spec.Cmd{ID: prog.NewID(), Name: n, Args: []*spec.Arg{{Toks: []string{"1"}}}}}}, s.Body.Stmts...)
				k.Count("decoy_command_name", 1)
			}
		case 1: // movement step in a movement statement
			prog.Items = append(prog.Items, &spec.MovementItem{ID: prog.NewID(), Name: g.Name("Mov"), Steps: []*spec.ListElem{{ID: prog.NewID(), Name: n}, {ID: prog.NewID(), Name: "walk_up", Mult: "2"}}})
			k.Count("decoy_movement_step", 1)
		case 2: // step inside moves()
			if len(scripts) > 0 {
				s := scripts[r.IntN(len(scripts))]
				c := &spec.Cmd{ID: prog.NewID(), Name: g.Name("cmd"), Args: []*spec.Arg{{Moves: []*spec.ListElem{{ID: prog.NewID(), Name: n}, {ID: prog.NewID(), Name: "walk_down"}}}}}
				s.Body.Stmts = append([]spec.Stmt{&spec.CmdStmt{Cmd: c}}, s.Body.Stmts...)
				k.Count("decoy_moves_step", 1)
			}
		case 3: // label statement
			if len(scripts) > 0 {
				s := scripts[r.IntN(len(scripts))]
				s.Body.Stmts = append([]spec.Stmt{&spec.Label{ID: prog.NewID(), Name: n}}, s.Body.Stmts...)
				k.Count("decoy_label", 1)
			}
		case 4: // script name
			prog.Items = append(prog.Items, &spec.Script{ID: prog.NewID(), Name: n, Body: &spec.Block{ID: prog.NewID(), Stmts: []spec.Stmt{&spec.CmdStmt{Cmd: g.Cmd()}}}})
			k.Count("decoy_script_name", 1)
		case 5: // text name and text content
			prog.Items = append(prog.Items, &spec.TextItem{ID: prog.NewID(), Name: n, Val: &spec.TextVal{ID: prog.NewID(), Parts: []string{"say " + n + " now"}}})
			k.Count("decoy_text_name_and_content", 1)
		case 6: // mart name / mapscripts name, map script type and plain label
			ms := &spec.MapScripts{ID: prog.NewID(), Name: g.Name("Map"), Entries: []*spec.MSEntry{{ID: prog.NewID(), Type: n, Kind: 0, Label: n}}}
			if r.IntN(2) == 0 {
				// the script label of a table row (the row's var and value are use sites, its label is a name)
				ms.Entries = append(ms.Entries, &spec.MSEntry{ID: prog.NewID(), Type: "MAP_SCRIPT_ON_FRAME_TABLE", Kind: 2, Rows: []*spec.MSRow{
					{ID: prog.NewID(), Var: []string{"VAR_TEMP_0"}, Value: []string{"1"}, Label: n},
					{ID: prog.NewID(), Var: []string{"VAR_TEMP_0"}, Value: []string{"2"}, Label: g.Name("Other")}}})
				k.Count("decoy_table_row_label", 1)
			}
			prog.Items = append(prog.Items, ms)
			k.Count("decoy_mapscript_type_and_label", 1)
		case 7: // goto target (an argument: substituted) is NOT a decoy; poryswitch key and case name are
			if len(scripts) > 0 {
				s := scripts[r.IntN(len(scripts))]
				ps := &spec.PorySwitch{ID: prog.NewID(), Key: n, Cases: []*spec.PSCase{
					{Name: n, Brace: true, Body: &spec.Block{ID: prog.NewID(), Stmts: []spec.Stmt{&spec.CmdStmt{Cmd: g.Cmd()}}}},
					{Name: "_", Brace: true, Body: &spec.Block{ID: prog.NewID(), Stmts: []spec.Stmt{&spec.CmdStmt{Cmd: g.Cmd()}}}},
				}}
				prog.Switches[n] = []string{n, "zzz"}[r.IntN(2)]
				s.Body.Stmts = append([]spec.Stmt{ps}, s.Body.Stmts...)
				k.Count("decoy_poryswitch_key_and_case", 1)
			}
		case 9: // inline string whose whole content is the constant's name (text content is never substituted)
			if len(scripts) > 0 {
				s := scripts[r.IntN(len(scripts))]
				t := &spec.TextVal{ID: prog.NewID(), Parts: []string{n}}
				if r.IntN(3) == 0 {
					t.Type = "ascii"
				}
				c := &spec.Cmd{ID: prog.NewID(), Name: g.Name("cmd"), Args: []*spec.Arg{{Text: t}, {Toks: []string{"1"}}}}
				s.Body.Stmts = append([]spec.Stmt{&spec.CmdStmt{Cmd: c}}, s.Body.Stmts...)
				k.Count("decoy_inline_string_content", 1)
			}
		case 8: // mart name
			prog.Items = append(prog.Items, &spec.MartItem{ID: prog.NewID(), Name: n, Items: []*spec.ListElem{{ID: prog.NewID(), Name: "ITEM_POTION"}}})
			k.Count("decoy_mart_name", 1)
		}
	}
}

func runC13(ctx *h.Ctx) int {
	prof := profFull()
	prof.WPory, prof.PoryKeys = 0, nil
	prof.PAuto = 0.3
	prof.MultiTokenCases = true
	prof.ValueFn = 0.3
	// constants whose value contains a comma (`const POSITION = 3, 4`, `const M = MAC(1, 2)`): as a command argument the
	// expansion reads like the written-out tokens - compared as token sequences, because the compiler puts a blank in
	// front of an expanded comma
	ctx.RunCases("comma-constants", ctx.N(400, 15000), func(k *h.Case) {
		g := spec.NewGen(k.R, spec.Profile{PTextArg: 0.4, PMovesArg: 0.2, RichArgs: true, NoEmptyArgs: true})
		prog := g.Prog
		vals := [][]string{{"3", ",", "4"}, {"MAC_P", "(", "1", ",", "2", ")"}, {"VAR_A", ",", "VAR_B", ",", "7"}, {"A", "+", "1", ",", "B"}}
		expand := map[string][]string{}
		var names []string
		for i := 0; i < 1+k.R.IntN(2); i++ {
			n := g.Name("COMMA_")
			v := vals[k.R.IntN(len(vals))]
			expand[n] = v
			names = append(names, n)
			prog.Items = append(prog.Items, &spec.Const{ID: prog.NewID(), Name: n, Value: v})
		}
		sc := &spec.Script{ID: prog.NewID(), Name: g.Name("Scr"), Body: &spec.Block{ID: prog.NewID()}}
		for i := 0; i < 2+k.R.IntN(4); i++ {
			c := g.Cmd()
			at := k.R.IntN(len(c.Args) + 1)
			args := append([]*spec.Arg{}, c.Args[:at]...)
			args = append(args, &spec.Arg{Toks: []string{"$" + names[k.R.IntN(len(names))]}})
			c.Args = append(args, c.Args[at:]...)
			if k.R.IntN(2) == 0 {
				// an inline text or moves() AFTER the constant
				c.Args = append(c.Args, &spec.Arg{Text: g.Text()})
			}
			sc.Body.Stmts = append(sc.Body.Stmts, &spec.CmdStmt{Cmd: c})
		}
		prog.Items = append(prog.Items, sc)
		p1 := spec.Print(prog)
		p1.Layout(spec.LayoutOpts{})
		p2 := spec.PrintExpanded(prog, expand)
		p2.Layout(spec.LayoutOpts{})
		k.SetSource(p1.Src)
		opt := k.R.IntN(2) == 0
		r1, r2 := h.Compile(p1.Src, optsOf(prog, opt)), h.Compile(p2.Src, optsOf(prog, opt))
		k.Count("evaluations", 2)
		if r1.Panic != nil || r2.Panic != nil {
			k.Violation("panic", fmt.Sprintf("panic: %v / %v", r1.Panic, r2.Panic), nil)
			return
		}
		if r1.OK() != r2.OK() {
			k.Violation("accept-differs", fmt.Sprintf("with comma constants: %q; with values written out: %q", r1.ErrString(), r2.ErrString()), map[string]interface{}{"substituted_source": p2.Src})
			return
		}
		if !r1.OK() {
			k.Count("both_rejected", 1)
			return
		}
		l1, l2 := strings.Split(r1.Out, "\n"), strings.Split(r2.Out, "\n")
		same := len(l1) == len(l2)
		for i := 0; same && i < len(l1); i++ {
			same = normLine(l1[i]) == normLine(l2[i])
		}
		if !same {
			k.Violation("comma-constant-differs", "output with comma constants differs (as token sequences) from the output with the values written out", map[string]interface{}{"with_constants": r1.Out, "substituted": r2.Out, "substituted_source": p2.Src})
			return
		}
		k.Count("comma_constant_pairs_equal", 1)
		k.Nontrivial("comma", len(sc.Body.Stmts), len(r1.Out)/32)
	})
	ctx.RunCases("const-pairs", ctx.N(6000, 300000), func(k *h.Case) {
		prof := prof
		if k.Index%3 == 2 {
			// constants used inside poryswitch cases (P and P' keep the poryswitch; only the constants go)
			prof.WPory, prof.PoryKeys, prof.PFallback = 8, []string{"GAME", "LANG"}, 1
		}
		g := spec.NewGen(k.R, prof)
		prog := g.FullProgram(1 + k.R.IntN(4))
		if k.R.IntN(3) == 0 {
			prog.Items = append(prog.Items, g.MartStmt())
		}
		defs := injectConsts(k, g, prog)
		addDecoys(k, g, prog, defs)
		// place the definitions: each before the first item that may use it
		expand := map[string][]string{}
		var items []spec.Item
		byAt := map[int][]*constDef{}
		for _, d := range defs {
			expand[d.name] = d.expand
			byAt[d.at] = append(byAt[d.at], d)
		}
		for i, it := range prog.Items {
			for _, d := range byAt[i] {
				items = append(items, &spec.Const{ID: prog.NewID(), Name: d.name, Value: d.value})
			}
			items = append(items, it)
		}
		for at, ds := range byAt {
			if at >= len(prog.Items) {
				for _, d := range ds {
					items = append(items, &spec.Const{ID: prog.NewID(), Name: d.name, Value: d.value})
				}
			}
		}
		prog.Items = items
		pr := layoutOf(k, prog, 0.15)
		k.SetSource(pr.Src)
		p2 := spec.PrintExpanded(prog, expand)
		p2.Layout(spec.LayoutOpts{})
		opt := k.R.IntN(2) == 0
		r1 := h.Compile(pr.Src, optsOf(prog, opt))
		r2 := h.Compile(p2.Src, optsOf(prog, opt))
		k.Count("evaluations", 2)
		if r1.Panic != nil || r2.Panic != nil {
			k.Violation("panic", fmt.Sprintf("panic: %v / %v", r1.Panic, r2.Panic), map[string]interface{}{"substituted_source": p2.Src})
			return
		}
		if !r1.OK() && k.Local("const_use_flag_comparison_value(undocumented)") > 0 && strings.Contains(r1.ErrString(), "comparison value") && strings.Contains(r1.ErrString(), "Only TRUE and FALSE are allowed") {
			// a constant as the TRUE/FALSE value of a flag()/defeated() comparison is not one of the documented
			// positions: the compiler may reject it; if it accepts it, the output must be that of the literal
			k.Count("undocumented_position_rejected", 1)
			return
		}
		if r1.OK() != r2.OK() {
			k.Violation("accept-differs", fmt.Sprintf("with constants: %q; with values written out: %q", r1.ErrString(), r2.ErrString()), map[string]interface{}{"substituted_source": p2.Src})
			return
		}
		if !r1.OK() {
			k.Count("both_rejected", 1)
			k.Count("rejected: "+rejectFamily(r1.ErrString()), 1)
			// foreseeable: two case values that expand to the same text
			rejectedValid(k, prog, r1, true, "duplicate switch cases")
			if rejectFamily(r1.ErrString()) != rejectFamily(r2.ErrString()) {
				k.Violation("error-differs", fmt.Sprintf("with constants: %q; with values written out: %q", r1.ErrString(), r2.ErrString()), map[string]interface{}{"substituted_source": p2.Src})
			}
			return
		}
		k.Count("accepted_pairs", 1)
		if r1.Out != r2.Out {
			det := map[string]interface{}{"with_constants": r1.Out, "substituted": r2.Out, "substituted_source": p2.Src}
			msg := "output with constants differs from the output with every use replaced by the expanded value"
			both := func() (h.Result, h.Result, string, string) {
				a := spec.Print(prog)
				a.Layout(spec.LayoutOpts{})
				b := spec.PrintExpanded(prog, expand)
				b.Layout(spec.LayoutOpts{})
				return h.Compile(a.Src, optsOf(prog, opt)), h.Compile(b.Src, optsOf(prog, opt)), a.Src, b.Src
			}
			differs := func() bool {
				a, b, _, _ := both()
				return a.OK() && b.OK() && a.Out != b.Out
			}
			if differs() {
				shrinkProgram(prog, differs, 300)
				a, b, sa, sb := both()
				det["minimal_source"], det["minimal_substituted_source"] = sa, sb
				msg += "\nreduced witness:\n" + sa + "--- compiled:\n" + a.Out + "\n--- with values written out:\n" + sb + "--- compiled:\n" + b.Out
			}
			k.Violation("", msg, det)
			return
		}
		var sig strings.Builder
		for _, d := range defs {
			fmt.Fprintf(&sig, "%d/%d;", len(d.value), len(d.expand))
		}
		k.Nontrivial(sig.String(), k.Local("const_uses"), len(r1.Out)%53)
		k.Sample("pair", map[string]interface{}{"source": pr.Src, "substituted_source": p2.Src})
	})
	// positions the documentation does not list (here: the multiplier of a movement step). Whether such a position
	// takes constants is not judged; but when it does for one spelling of a number it is a use site like any other:
	// the output equals the written-out program, and the same number spelled in hexadecimal - accepted when written
	// out - must be taken as well
	ctx.RunCases("unlisted-positions", ctx.N(200, 4000), func(k *h.Case) {
		pairs := [][2]string{{"3", "0x3"}, {"2", "0x02"}, {"10", "0xA"}, {"12", "0xc"}}
		pr := pairs[k.R.IntN(len(pairs))]
		step := []string{"walk_up", "face_down", "delay_16"}[k.R.IntN(3)]
		form := k.R.IntN(2)
		mk := func(val string, useConst bool) string {
			m := val
			def := ""
			if useConst {
				m, def = "STEPS", "const STEPS = "+val+"\n"
			}
			if form == 0 {
				return def + "movement Mv {\n  walk_left\n  " + step + " * " + m + "\n  walk_right\n}\n"
			}
			return def + "script Sc {\n  applymovement(2, moves(walk_left, " + step + " * " + m + ", walk_right))\n}\n"
		}
		o := h.Opts{Optimize: true}
		var res [2]h.Result
		for i, val := range pr {
			withConst, written := h.Compile(mk(val, true), o), h.Compile(mk(val, false), o)
			k.Count("evaluations", 2)
			k.SetSource(mk(val, true))
			if withConst.Panic != nil {
				k.Violation("panic", fmt.Sprintf("panic: %v", withConst.Panic), nil)
				return
			}
			if !written.OK() {
				k.C.Inconclusive("a movement with a literal multiplier is rejected: %s", written.ErrString())
				return
			}
			if withConst.OK() && withConst.Out != written.Out {
				k.Violation("unlisted-position-differs", fmt.Sprintf("a constant is accepted as the multiplier of a movement step, but the output differs from the program with the value %s written out", val), map[string]interface{}{"with_constant": withConst.Out, "written_out": written.Out})
				return
			}
			res[i] = withConst
		}
		switch {
		case res[0].OK() != res[1].OK():
			k.Violation("unlisted-position-inconsistent", fmt.Sprintf("a constant with the value %s is taken as the multiplier of a movement step (accepted: %v), one with the value %s is not (accepted: %v), although both compile when written out", pr[0], res[0].OK(), pr[1], res[1].OK()), map[string]interface{}{"error": res[0].ErrString() + res[1].ErrString()})
			return
		case res[0].OK():
			k.Count("unlisted_position_takes_constants", 1)
		default:
			k.Count("unlisted_position_rejects_constants", 1)
		}
		k.Nontrivial("unlisted", pr[0], step, form)
	})
	// redefinition must be rejected
	ctx.RunCases("redefinition", ctx.N(800, 20000), func(k *h.Case) {
		g := spec.NewGen(k.R, prof)
		prog := g.FullProgram(1 + k.R.IntN(3))
		name := g.Name("CONST_")
		c1 := &spec.Const{ID: prog.NewID(), Name: name, Value: constValuePool[k.R.IntN(len(constValuePool))]}
		c2 := &spec.Const{ID: prog.NewID(), Name: name, Value: constValuePool[k.R.IntN(len(constValuePool))]}
		if k.R.IntN(4) == 0 {
			c2.Value = c1.Value // the same value again is a redefinition all the same
			k.Count("redefinitions_with_the_same_value", 1)
		}
		i1 := k.R.IntN(len(prog.Items) + 1)
		items := append([]spec.Item{}, prog.Items[:i1]...)
		items = append(items, c1)
		items = append(items, prog.Items[i1:]...)
		i2 := i1 + 1 + k.R.IntN(len(items)-i1)
		items2 := append([]spec.Item{}, items[:i2]...)
		items2 = append(items2, c2)
		items2 = append(items2, items[i2:]...)
		prog.Items = items2
		pr := layoutOf(k, prog, 0.3)
		k.SetSource(pr.Src)
		res := h.Compile(pr.Src, optsOf(prog, true))
		k.Count("evaluations", 1)
		if res.Panic != nil {
			k.Violation("panic", fmt.Sprintf("panic: %v", res.Panic), nil)
			return
		}
		if res.Err == nil {
			k.Violation("redefinition-accepted", fmt.Sprintf("constant %s is defined twice but the program compiled", name), nil)
			return
		}
		k.Count("redefinitions_rejected", 1)
		k.Nontrivial("redef", i1, i2-i1)
	})
	return ctx.Finish(
		"files with 1..6 const definitions (single/multi-token values, constants defined from earlier constants, defined at the top or between items) used at every documented site: command arguments (incl. AutoVar commands), flag/var/defeated operands, comparison values incl. value(), switch operands and case values, map-script table vars/values, mart items; decoys equal to a constant's name at sites that must not be substituted (command name, movement step in statement and moves(), label, script/text/mart name, text content, map-script type and plain label, poryswitch key and case). Oracle: compile(P) byte-identical to compile(P') where P' has every use textually replaced by the fully expanded value and the const lines removed (decoys untouched in both); same acceptance; redefinition (also with the same value) rejected; an unlisted position (step multiplier) that takes a constant for one spelling of a number must equal the written-out program and take the hexadecimal spelling too. distinct = (definition shapes, number of uses, output size class)",
		ctx.N(500, 5000),
		[]string{"constants are not used as flag/defeated comparison values (true/false are checked on the written token)", "mart items only use constants whose value is a single identifier"})
}
