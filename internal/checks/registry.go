// Package checks holds one monitor per property.
package checks

import (
	"encoding/json"
	"fmt"
	"os"

	"verif.local/pvmon/internal/h"
)

// Registry maps property ids to their check functions. A check runs its
// workloads, calls ctx.Finish and returns the exit status.
var Registry = map[string]func(*h.Ctx) int{}

// WorkerFns are entry points for child worker processes (C18).
var WorkerFns = map[string]func(args []string) int{}

// Worker dispatches a child worker process.
func Worker(args []string) int {
	if len(args) == 0 {
		return 2
	}
	fn, ok := WorkerFns[args[0]]
	if !ok {
		fmt.Println("no such worker", args[0])
		return 2
	}
	return fn(args[1:])
}

// Replay re-executes the single case recorded in a witness file.
func Replay(path string) int {
	b, err := os.ReadFile(path)
	if err != nil {
		fmt.Println("cannot read", path, err)
		return 2
	}
	var v h.Violation
	if err := json.Unmarshal(b, &v); err != nil {
		fmt.Println("bad replay file:", err)
		return 2
	}
	fn, ok := Registry[v.Property]
	if !ok {
		fmt.Println("no such check", v.Property)
		return 2
	}
	ctx := h.NewCtx(v.Property, v.Tier, v.Seed)
	ctx.OnlySub, ctx.OnlyIndex = v.Sub, v.Index
	fmt.Printf("replaying %s %s seed=%d case %s/%d\nrecorded message: %s\n", v.Property, v.Tier, v.Seed, v.Sub, v.Index, v.Message)
	return fn(ctx)
}
