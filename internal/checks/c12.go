package checks

import (
	"fmt"
	"os"
	"regexp"
	"strings"

	"verif.local/pvmon/internal/h"
	"verif.local/pvmon/internal/spec"
)

func init() { Registry["C12"] = runC12 }

func profC12() spec.Profile {
	p := profFull()
	p.WPory = 14
	p.PFallback = 0.8
	p.PTextArg, p.PMovesArg = 0.3, 0.2
	p.PoryKeys = []string{"GAME", "LANG", "V"}
	return p
}

// countPory counts poryswitch nodes by position.
func countPory(p *spec.Program, k *h.Case) int {
	n := 0
	var list func(es []*spec.ListElem, what string)
	list = func(es []*spec.ListElem, what string) {
		for _, e := range es {
			if e.PS != nil {
				n++
				k.Count("poryswitch_in_"+what, 1)
				for _, c := range e.PS.Cases {
					list(c.Elems, what)
				}
			}
		}
	}
	var blk func(b *spec.Block)
	blk = func(b *spec.Block) {
		if b == nil {
			return
		}
		allCmds(b, func(c *spec.Cmd) {
			for _, a := range c.Args {
				if a.Moves != nil {
					list(a.Moves, "moves")
				}
			}
		})
		var walk func(b *spec.Block)
		walk = func(b *spec.Block) {
			if b == nil {
				return
			}
			for _, st := range b.Stmts {
				switch x := st.(type) {
				case *spec.PorySwitch:
					n++
					k.Count("poryswitch_in_statements", 1)
					for _, c := range x.Cases {
						walk(c.Body)
					}
				case *spec.If:
					for _, a := range x.Arms {
						walk(a.Body)
					}
					walk(x.Else)
				case *spec.While:
					walk(x.Body)
				case *spec.DoWhile:
					walk(x.Body)
				case *spec.Switch:
					for _, c := range x.Cases {
						walk(c.Body)
					}
				}
			}
		}
		walk(b)
	}
	for _, it := range p.Items {
		switch x := it.(type) {
		case *spec.Script:
			blk(x.Body)
		case *spec.TextItem:
			if x.PS != nil {
				n++
				k.Count("poryswitch_in_text", 1)
			}
		case *spec.MovementItem:
			list(x.Steps, "movement")
		case *spec.MartItem:
			list(x.Items, "mart")
		case *spec.MapScripts:
			for _, e := range x.Entries {
				blk(e.Body)
				for _, r := range e.Rows {
					blk(r.Body)
				}
			}
		}
	}
	return n
}

func runC12(ctx *h.Ctx) int {
	prof := profC12()
	// environment variables named like the switch keys: they select nothing
	for _, key := range prof.PoryKeys {
		os.Setenv(key, "RUBY")
	}
	// (values are compared with case names exactly: "ruby", "Ruby " or "0X10" name no case)
	vals := []string{"RUBY", "SAPPHIRE", "EMERALD", "1", "2", "OTHER", "-1", "0x10", "ruby", "Sapphire", "0X10", "01", "RUBY "}
	ctx.RunCases("selection-pairs", ctx.N(6000, 300000), func(k *h.Case) {
		g := spec.NewGen(k.R, prof)
		prog := g.FullProgram(1 + k.R.IntN(4))
		for _, key := range prof.PoryKeys {
			prog.Switches[key] = vals[k.R.IntN(len(vals))]
		}
		np := countPory(prog, k)
		if np == 0 {
			k.Count("without_poryswitch", 1)
			return
		}
		if k.R.IntN(6) == 0 {
			// constants spelled like case names, switch keys and switch values: none of those is a position
			// where constants are substituted
			var cs []spec.Item
			for _, n := range []string{"RUBY", "SAPPHIRE", "EMERALD", "GAME", "LANG", "OTHER"} {
				if k.R.IntN(2) == 0 {
					cs = append(cs, &spec.Const{ID: prog.NewID(), Name: n, Value: []string{[]string{"0", "1", "EMERALD", "_"}[k.R.IntN(4)]}})
				}
			}
			prog.Items = append(cs, prog.Items...)
			k.Count("files_with_constants_named_like_cases", 1)
		}
		if k.R.IntN(12) == 0 {
			// one key gets no -s value at all (the other one does), while the process environment has a variable of
			// that name holding a case name: only -s selects, so a file that uses the key must be rejected
			dropped := prof.PoryKeys[k.R.IntN(len(prof.PoryKeys))]
			delete(prog.Switches, dropped)
			src := spec.Source(prog)
			k.SetSource(src)
			res := h.Compile(src, optsOf(prog, k.R.IntN(2) == 0))
			k.Count("evaluations", 1)
			if res.Panic != nil {
				k.Violation("panic", fmt.Sprintf("panic: %v", res.Panic), nil)
				return
			}
			if regexp.MustCompile(`poryswitch\s*\(\s*` + dropped + `\b`).MatchString(src) {
				if res.Err == nil {
					k.Violation("key-without-value-accepted", fmt.Sprintf("poryswitch(%s) is used, no -s value was given for %s (the environment variable %s=%s exists), but the program compiled", dropped, dropped, dropped, os.Getenv(dropped)), map[string]interface{}{"output": res.Out, "switches": prog.Switches})
					return
				}
				k.Count("keys_without_value_rejected", 1)
			}
			return
		}
		rp, rerr := spec.Resolve(prog, prog.Switches)
		pr := layoutOf(k, prog, 0.15)
		k.SetSource(pr.Src)
		opt := k.R.IntN(2) == 0
		res := h.Compile(pr.Src, optsOf(prog, opt))
		k.Count("evaluations", 1)
		if res.Panic != nil {
			k.Violation("panic", fmt.Sprintf("panic: %v", res.Panic), nil)
			return
		}
		if rerr != nil {
			// no matching case and no fallback: must be an error
			if res.Err == nil {
				k.Violation("missing-case-accepted", "a poryswitch has no case for the -s value and no '_' case, but the program compiled", map[string]interface{}{"output": res.Out, "switches": prog.Switches})
				return
			}
			if !strings.Contains(res.ErrString(), "no poryswitch case found") {
				k.C.Inconclusive("a program with an unmatched poryswitch is rejected for another reason: %s", rejectFamily(res.ErrString()))
			}
			k.Count("missing_case_rejected", 1)
			k.Nontrivial("missing", np)
			return
		}
		src2 := spec.Source(rp)
		res2 := h.Compile(src2, optsOf(rp, opt))
		k.Count("evaluations", 1)
		if !res2.OK() {
			k.Count("manual_selection_rejected: "+rejectFamily(res2.ErrString()), 1)
			debugReject(src2, res2.ErrString())
			if res.OK() {
				k.Violation("accepted-only-with-poryswitch", fmt.Sprintf("the poryswitch program compiles, but the same program with the selected cases written out is rejected: %s", res2.ErrString()), map[string]interface{}{"manual": src2, "switches": prog.Switches})
			} else {
				rejectedValid(k, rp, res2, true)
			}
			return
		}
		if !res.OK() && spec.AnyUnmatched(prog, prog.Switches) && strings.Contains(res.ErrString(), "no poryswitch case found") {
			// a poryswitch nested inside a case that is not selected has no matching case: the
			// property can be read either way ("every poryswitch ... with no matching case
			// compilation fails"), so a rejection is not judged
			k.Count("nested_unmatched_in_unselected_case_rejected", 1)
			return
		}
		if !res.OK() {
			k.Violation("selected-ok-but-rejected", fmt.Sprintf("the program with the selected cases written out compiles, but the poryswitch program is rejected: %s", res.ErrString()), map[string]interface{}{"manual": src2, "switches": prog.Switches})
			debugReject(pr.Src, res.ErrString())
			return
		}
		k.Count("accepted_pairs", 1)
		if res.Out != res2.Out {
			det := map[string]interface{}{"with_poryswitch": res.Out, "manual_selection": res2.Out, "manual_source": src2, "switches": prog.Switches}
			msg := "output differs from the program with every poryswitch replaced by its selected case"
			differs := func() bool {
				rp2, err := spec.Resolve(prog, prog.Switches)
				if err != nil {
					return false
				}
				a, b := h.Compile(spec.Source(prog), optsOf(prog, opt)), h.Compile(spec.Source(rp2), optsOf(rp2, opt))
				return a.OK() && b.OK() && a.Out != b.Out
			}
			if differs() {
				shrinkProgram(prog, differs, 300)
				if rp2, err := spec.Resolve(prog, prog.Switches); err == nil {
					a, b := h.Compile(spec.Source(prog), optsOf(prog, opt)), h.Compile(spec.Source(rp2), optsOf(rp2, opt))
					det["minimal_source"], det["minimal_with_poryswitch"], det["minimal_manual_selection"] = spec.Source(prog), a.Out, b.Out
					msg += "\nreduced witness (switches " + fmt.Sprint(prog.Switches) + "):\n" + spec.Source(prog) + "\n--- compiled:\n" + a.Out + "\n--- manual selection compiled:\n" + b.Out
				}
			}
			k.Violation("", msg, det)
			return
		}
		k.Nontrivial(np, len(res.Out)%97, shapeOfBlock(firstBody(rp)))
		k.Sample("pair", map[string]interface{}{"source": pr.Src, "switches": prog.Switches})
	})
	// the -s option of the CLI
	ctx.RunCases("cli-switches", ctx.N(60, 600), func(k *h.Case) {
		g := spec.NewGen(k.R, prof)
		prog := g.FullProgram(1 + k.R.IntN(3))
		for _, key := range prof.PoryKeys {
			v := vals[k.R.IntN(len(vals))]
			switch k.R.IntN(6) {
			case 0:
				v = "'" + v + "'" // quotes, blanks and case are part of the value: such a value names no case
			case 1:
				v = "\"" + v + "\""
			case 2:
				v = " " + v
			case 3:
				v = strings.ToLower(v)
			}
			prog.Switches[key] = v
		}
		src := spec.Source(prog)
		k.SetSource(src)
		lib := h.Compile(src, optsOf(prog, true))
		dir := workDir(k)
		defer cleanWork(dir)
		cli := runCLI(dir, src, prog, true, false)
		k.Count("evaluations", 2)
		if cli.Err != nil {
			k.C.Inconclusive("cannot run CLI: %v", cli.Err)
			return
		}
		if lib.OK() != (cli.Exit == 0) {
			k.Violation("cli-accept-differs", fmt.Sprintf("library: %q, CLI exit %d: %s", lib.ErrString(), cli.Exit, firstLineOf(cli.Stderr)), nil)
			return
		}
		if lib.OK() && lib.Out != cli.Out {
			k.Violation("cli-output-differs", "CLI output with -s options differs from the library output with the same switches", map[string]interface{}{"library": lib.Out, "cli": cli.Out})
			return
		}
		k.Count("cli_runs_equal", 1)
	})
	return ctx.Finish(
		"files with poryswitch in statements (nested, in every control construct and inline map script), text bodies (typed, format()), movement bodies, moves() and mart bodies; colon and brace forms, identifier and integer case names, with/without '_', non-selected cases filled with loud content (texts, labels, steps, items); 3 switch keys with values hitting cases, the fallback and nothing. Oracle: compile(P) is byte-identical to compile(P') where P' is the generator's own manual selection; no match and no '_' must be an error; CLI -s sample equals the library. distinct = (number of poryswitches, output size class, first script signature)",
		ctx.N(500, 5000),
		[]string{"continue inside a case is generated only where the manual selection is also legal", "P' rejected (generator produced something illegal once written out) is counted, not judged"})
}

func firstBody(p *spec.Program) *spec.Block {
	for _, s := range scriptsOf(p) {
		return s.Body
	}
	return nil
}
