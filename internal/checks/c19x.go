package checks

import (
	"fmt"
	"strings"

	"verif.local/pvmon/internal/c19"
	"verif.local/pvmon/internal/h"
	"verif.local/pvmon/internal/spec"
)

func init() { c19.Extra = c19GeneratedLayouts }

// c19GeneratedLayouts is part (d) of C19 on generated programs: the same
// lexeme list laid out canonically and scrambled (spaces, tabs, LF/CRLF, # and
// // comments anywhere) must compile to the same output without line markers.
func c19GeneratedLayouts(ctx *h.Ctx) {
	prof := profFull()
	ctx.RunCases("generated-program-layouts", ctx.N(3000, 150000), func(k *h.Case) {
		g := spec.NewGen(k.R, prof)
		prog := g.FullProgram(1 + k.R.IntN(4))
		if k.R.IntN(3) == 0 {
			// constant definitions anywhere between the statements: their values end at the next top-level keyword,
			// not at the end of the line, so they may be laid out over several lines like everything else
			vals := [][]string{{"3"}, {"A", "+", "B", "-", "1"}, {"type", "=", "MSGBOX_NPC"}, {"Nurse_Text_Heal", ",", "kind", "=", "2"}, {"(", "2", "*", "3", ")"}, {"X", "==", "Y"}}
			for n := 1 + k.R.IntN(3); n > 0; n-- {
				c := &spec.Const{ID: prog.NewID(), Name: g.Name("LAYOUT_CONST_"), Value: vals[k.R.IntN(len(vals))]}
				at := k.R.IntN(len(prog.Items) + 1)
				prog.Items = append(prog.Items[:at:at], append([]spec.Item{c}, prog.Items[at:]...)...)
			}
			k.Count("generated_programs_with_constants", 1)
		}
		a := spec.Print(prog)
		a.Layout(spec.LayoutOpts{})
		b := spec.Print(prog)
		b.Layout(spec.LayoutOpts{Scramble: true, CRLF: k.R.IntN(3) == 0, R: k.R})
		c := spec.Print(prog)
		c.Layout(spec.LayoutOpts{Scramble: true, CRLF: k.R.IntN(3) == 0, R: k.R})
		k.SetSource(b.Src)
		opt := k.R.IntN(2) == 0
		ra, rb, rc := h.Compile(a.Src, optsOf(prog, opt)), h.Compile(b.Src, optsOf(prog, opt)), h.Compile(c.Src, optsOf(prog, opt))
		k.Count("evaluations", 3)
		k.Count("generated_program_layouts", 3)
		for i, r := range []h.Result{rb, rc} {
			if r.OK() != ra.OK() {
				k.Violation("layout-changes-acceptance", fmt.Sprintf("canonical layout: %q; scrambled layout %d: %q", ra.ErrString(), i, r.ErrString()), map[string]interface{}{"canonical": a.Src})
				return
			}
			if !ra.OK() {
				// both rejected: the same error (modulo its position, which moves with the layout), and a panic
				// is never "the same" as an error
				if (r.Panic != nil) != (ra.Panic != nil) || errorWithoutPosition(r.ErrString()) != errorWithoutPosition(ra.ErrString()) {
					k.Violation("layout-changes-error", fmt.Sprintf("canonical layout: %q; scrambled layout %d: %q", ra.ErrString(), i, r.ErrString()), map[string]interface{}{"canonical": a.Src})
					return
				}
				k.Count("generated_program_rejections_equal", 1)
			}
			if ra.OK() && r.Out != ra.Out {
				k.Violation("layout-changes-output", fmt.Sprintf("scrambled layout %d compiles to a different output than the canonical layout of the same lexemes", i), map[string]interface{}{"canonical": a.Src, "canonical_out": ra.Out, "scrambled_out": r.Out})
				return
			}
		}
		if !ra.OK() {
			rejectedValid(k, prog, ra, false)
		}
		if ra.OK() {
			k.Count("generated_program_pairs_equal", 2)
			k.Nontrivial("genprog", len(a.Lex), b.Lines)
		}
	})
}

// errorWithoutPosition strips the "line N:" prefix of an error text.
func errorWithoutPosition(e string) string {
	if strings.HasPrefix(e, "line ") {
		if i := strings.Index(e, ": "); i > 0 {
			return e[i+2:]
		}
	}
	return e
}
