package checks

import (
	"fmt"
	"strings"

	"verif.local/pvmon/internal/asm"
	"verif.local/pvmon/internal/h"
	"verif.local/pvmon/internal/ref"
	"verif.local/pvmon/internal/spec"
)

func init() { Registry["C08"] = runC08 }

func profC08() spec.Profile {
	p := profC01()
	p.MaxDepth, p.MaxLen = 3, 3
	p.WSwitch, p.WPory = 6, 5
	p.PTextArg, p.PMovesArg = 0.2, 0.08
	p.PoryKeys = []string{"GAME"}
	p.PFallback = 0.9
	p.MaxLeaves = 2
	p.NoRedundantPar = false
	return p
}

// c08MapScripts generates a mapscripts statement with 0..8 entries.
func c08MapScripts(k *h.Case, g *spec.Gen) *spec.MapScripts {
	r := k.R
	m := &spec.MapScripts{ID: g.Prog.NewID(), Name: g.Name("Map"), Scope: r.IntN(3)}
	types := []string{"MAP_SCRIPT_ON_LOAD", "MAP_SCRIPT_ON_TRANSITION", "MAP_SCRIPT_ON_RESUME", "MAP_SCRIPT_ON_FRAME_TABLE", "MAP_SCRIPT_ON_WARP_INTO_MAP_TABLE", "MAP_SCRIPT_ON_DIVE_WARP", "MAP_SCRIPT_ON_RETURN_TO_FIELD", "MAP_SCRIPT_X", "TYPE_Ü", "MAP_SCRIPT_ON_WARP_INTO_MAP", "MAP_SCRIPT_ON_FRAME"}
	r.Shuffle(len(types), func(i, j int) { types[i], types[j] = types[j], types[i] })
	n := r.IntN(9)
	for i := 0; i < n; i++ {
		e := &spec.MSEntry{ID: g.Prog.NewID(), Type: types[i], Kind: r.IntN(3)}
		if i > 0 && r.IntN(14) == 0 {
			// the same type again: fine for plain entries (the header just lists both); two entries that both
			// need the label <map>_<TYPE> cannot both be emitted, so the compiler has to reject those
			e.Type = m.Entries[r.IntN(i)].Type
		}
		switch e.Kind {
		case 0:
			e.Label = g.Name("Target")
		case 1:
			e.Body = g.ScriptBody(m.Name + "_" + e.Type)
		case 2:
			rows := r.IntN(7)
			if r.IntN(12) == 0 {
				rows = 12 + r.IntN(4) // long tables: two-digit row indices
			}
			sameShape := r.IntN(6) == 0
			if sameShape && rows < 2 {
				rows = 2 + r.IntN(3)
			}
			for j := 0; j < rows; j++ {
				row := &spec.MSRow{ID: g.Prog.NewID(), Var: []string{g.Name("VAR_T")}, Value: []string{fmt.Sprint(r.IntN(9))}}
				switch r.IntN(8) {
				case 7:
					// a function-like macro with a comma inside its parentheses as comparison value
					row.Value = []string{"MAC_VAL", "(", fmt.Sprint(j), ",", "2", ")"}
				case 0:
					row.Value = []string{g.Name("VAL_"), "+", "1"}
				case 1:
					row.Var = []string{"VAR_BASE", "+", fmt.Sprint(j)}
				case 2:
					// constants (defined at the top of the file) inside multi-token values
					row.Value = []string{"$TBL_BASE", "+", fmt.Sprint(j)}
				case 3:
					row.Var = []string{"$TBL_VAR"}
					row.Value = []string{"(", "$TBL_BASE", ")", "*", "2"}
				}
				if sameShape {
					// rows whose inline scripts have the same shape and differ only in an inline text / moves() argument
					arg := &spec.Arg{Text: &spec.TextVal{ID: g.Prog.NewID(), Parts: []string{fmt.Sprintf("message %d", j%3)}}}
					if j%2 == 1 {
						arg = &spec.Arg{Moves: []*spec.ListElem{{ID: g.Prog.NewID(), Name: []string{"walk_up", "walk_down", "walk_left"}[j%3]}}}
					}
					row.Body = &spec.Block{ID: g.Prog.NewID(), Stmts: []spec.Stmt{
						&spec.CmdStmt{Cmd: &spec.Cmd{ID: g.Prog.NewID(), Name: "lockall"}},
						&spec.CmdStmt{Cmd: &spec.Cmd{ID: g.Prog.NewID(), Name: "showthing", Args: []*spec.Arg{arg, {Toks: []string{"1"}}}}},
						&spec.CmdStmt{Cmd: &spec.Cmd{ID: g.Prog.NewID(), Name: "end"}},
					}}
				} else if rows >= 12 && (j == 1 || j == 11) {
					// rows 1 and 11 of a long table: inline scripts with many chunks (two-digit chunk ids
					// next to two-digit row indices)
					row.Body = manyChunkBody(g, 10+r.IntN(5))
				} else if r.IntN(2) == 0 {
					row.Body = g.ScriptBody(fmt.Sprintf("%s_%s_%d", m.Name, e.Type, j))
				} else {
					row.Label = g.Name("Target")
				}
				e.Rows = append(e.Rows, row)
			}
		}
		m.Entries = append(m.Entries, e)
	}
	// a plain entry or plain row may simply name the generated label of a sibling inline script
	// (a reference, not a definition)
	var inlineNames []string
	for _, e := range m.Entries {
		if e.Kind == 1 {
			inlineNames = append(inlineNames, m.Name+"_"+e.Type)
		}
		for j, row := range e.Rows {
			if row.Body != nil {
				inlineNames = append(inlineNames, fmt.Sprintf("%s_%s_%d", m.Name, e.Type, j))
			}
		}
	}
	if len(inlineNames) > 0 && r.IntN(3) == 0 {
		for _, e := range m.Entries {
			if e.Kind == 0 && r.IntN(2) == 0 {
				e.Label = inlineNames[r.IntN(len(inlineNames))]
			}
			for _, row := range e.Rows {
				if row.Body == nil && r.IntN(3) == 0 {
					row.Label = inlineNames[r.IntN(len(inlineNames))]
				}
			}
		}
	}
	return m
}

// dupLabelTypePredicted tells whether some mapscripts statement has two entries of one type that both need
// the label <map>_<TYPE> (inline script or table): the compiler has to reject such a file.
func dupLabelTypePredicted(p *spec.Program) bool {
	for _, it := range p.Items {
		m, ok := it.(*spec.MapScripts)
		if !ok {
			continue
		}
		seen := map[string]bool{}
		for _, e := range m.Entries {
			if e.Kind == 0 {
				continue
			}
			if seen[e.Type] {
				return true
			}
			seen[e.Type] = true
		}
	}
	return false
}

// instrFrom returns the code lines (instructions and labels) starting at i
// until (not including) the first blank line.
func codeUntilBlank(f *asm.File, i int) []*asm.Line {
	var out []*asm.Line
	for ; i < len(f.Lines); i++ {
		l := &f.Lines[i]
		if l.Kind == asm.KBlank {
			break
		}
		if l.Kind == asm.KMarker {
			continue
		}
		out = append(out, l)
	}
	return out
}

func runC08(ctx *h.Ctx) int {
	prof := profC08()
	ctx.RunCases("mapscripts", ctx.N(4000, 200000), func(k *h.Case) {
		g := spec.NewGen(k.R, prof)
		prog := g.Prog
		prog.Switches["GAME"] = []string{"RUBY", "SAPPHIRE", "1", "zz"}[k.R.IntN(4)]
		prog.Items = append(prog.Items, &spec.Const{ID: prog.NewID(), Name: "TBL_BASE", Value: []string{"4"}}, &spec.Const{ID: prog.NewID(), Name: "TBL_VAR", Value: []string{"VAR_TEMP_0", "+", "1"}})
		var maps []*spec.MapScripts
		n := 1 + k.R.IntN(2)
		for i := 0; i < n; i++ {
			if k.R.IntN(3) == 0 {
				prog.Items = append(prog.Items, g.Script())
			}
			m := c08MapScripts(k, g)
			maps = append(maps, m)
			prog.Items = append(prog.Items, m)
			if k.R.IntN(3) == 0 {
				prog.Items = append(prog.Items, g.TextStmt())
			}
		}
		if k.R.IntN(4) == 0 {
			// label-form entries and rows that name a script of this file or a label statement written inside one
			// (a secondary entry point): references, not definitions
			var names []string
			for _, it := range prog.Items {
				if sc, ok := it.(*spec.Script); ok {
					names = append(names, sc.Name)
					userLabelsOf(sc.Body, &names)
				}
			}
			if len(names) > 0 {
				for _, m := range maps {
					for _, e := range m.Entries {
						if e.Kind == 0 && k.R.IntN(2) == 0 {
							e.Label = names[k.R.IntN(len(names))]
							k.Count("entries_naming_a_label_of_the_file", 1)
						}
						for _, row := range e.Rows {
							if row.Body == nil && k.R.IntN(3) == 0 {
								row.Label = names[k.R.IntN(len(names))]
								k.Count("entries_naming_a_label_of_the_file", 1)
							}
						}
					}
				}
			}
		}
		if k.R.IntN(6) == 0 {
			// constants spelled like the script labels that plain entries and plain rows name: a label is a name,
			// not a use of a constant (the row's var and value are)
			var labels []string
			for _, m := range maps {
				for _, e := range m.Entries {
					if e.Kind == 0 {
						labels = append(labels, e.Label)
					}
					for _, row := range e.Rows {
						if row.Body == nil {
							labels = append(labels, row.Label)
						}
					}
				}
			}
			seen := map[string]bool{}
			var cs []spec.Item
			for _, l := range labels {
				if !seen[l] && l != "" && k.R.IntN(2) == 0 {
					seen[l] = true
					cs = append(cs, &spec.Const{ID: prog.NewID(), Name: l, Value: []string{[]string{"2", "VAR_TEMP_9", "OtherLabel"}[k.R.IntN(3)]}})
				}
			}
			if len(cs) > 0 {
				prog.Items = append(cs, prog.Items...)
				k.Count("files_with_constants_spelled_like_entry_labels", 1)
			}
		}
		rp, rerr := spec.Resolve(prog, prog.Switches)
		pr := layoutOf(k, prog, 0.2)
		k.SetSource(pr.Src)
		opt := k.R.IntN(2) == 0
		res := h.Compile(pr.Src, optsOf(prog, opt))
		k.Count("evaluations", 1)
		if !res.OK() {
			k.Count("rejected", 1)
			k.Count("rejected: "+rejectFamily(res.ErrString()), 1)
			dup := ""
			if dupLabelTypePredicted(prog) {
				dup = "duplicate map script type"
			}
			rejectedValid(k, prog, res, true, dup)
			return
		}
		if rerr != nil {
			acceptedUnmatched(k)
			return
		}
		k.Count("accepted", 1)
		f := asm.Parse(res.Out)
		bad := func(key, format string, a ...interface{}) {
			k.Violation(key, fmt.Sprintf(format, a...), map[string]interface{}{"output": res.Out})
		}
		bnd := boundaryOf(rp, f)
		// no label of the file may be defined twice (inline scripts of different entries / rows must not collide)
		for name, defs := range f.Labels {
			if len(defs) > 1 {
				bad("label-defined-twice", "label %q is defined %d times (lines %v)", name, len(defs), defs)
				return
			}
		}
		for _, it := range rp.Items {
			m, ok := it.(*spec.MapScripts)
			if !ok {
				continue
			}
			defs := f.Labels[m.Name]
			if len(defs) != 1 {
				bad("map-label", "mapscripts %q defined %d times", m.Name, len(defs))
				return
			}
			if f.Lines[defs[0]].Global != scopeGlobal(m.Scope, true) {
				bad("map-scope", "mapscripts %q exported=%v", m.Name, f.Lines[defs[0]].Global)
				return
			}
			hdr := codeUntilBlank(f, defs[0]+1)
			// expected header: plain+inline in source order, then tables in source order, then .byte 0
			var direct, tables []*spec.MSEntry
			for _, e := range m.Entries {
				if e.Kind == 2 {
					tables = append(tables, e)
				} else {
					direct = append(direct, e)
				}
			}
			if len(hdr) != len(direct)+len(tables)+1 {
				bad("header-length", "mapscripts %s: header has %d lines, expected %d entries + '.byte 0'", m.Name, len(hdr), len(direct)+len(tables))
				return
			}
			if strings.TrimSpace(hdr[len(hdr)-1].Text) != ".byte 0" {
				bad("header-terminator", "mapscripts %s: header ends with %q, expected '.byte 0'", m.Name, hdr[len(hdr)-1].Text)
				return
			}
			inlineLabel := map[*spec.MSEntry]string{}
			tableLabel := map[*spec.MSEntry]string{}
			for i, e := range append(append([]*spec.MSEntry{}, direct...), tables...) {
				l := hdr[i]
				typ, lbl := asm.SplitFirst(l.Args)
				if l.Kind != asm.KInstr || l.Op != "map_script" || typ != e.Type {
					bad("header-order", "mapscripts %s: header line %d is %q, expected map_script %s, ...", m.Name, i, strings.TrimSpace(l.Text), e.Type)
					return
				}
				switch e.Kind {
				case 0:
					if lbl != e.Label {
						bad("header-plain-label", "mapscripts %s: entry %s refers to %q, expected %q", m.Name, e.Type, lbl, e.Label)
						return
					}
				case 1:
					inlineLabel[e] = lbl
				case 2:
					tableLabel[e] = lbl
				}
			}
			k.Count("headers_checked", 1)
			k.Count("header_entries_checked", int64(len(hdr)-1))
			// tables
			type inl struct {
				label string
				body  *spec.Block
			}
			var inlines []inl
			for _, e := range direct {
				if e.Kind == 1 {
					inlines = append(inlines, inl{inlineLabel[e], e.Body})
				}
			}
			for _, e := range tables {
				tl := tableLabel[e]
				tdefs := f.Labels[tl]
				if len(tdefs) != 1 {
					bad("table-label", "table label %q (for %s) is defined %d times", tl, e.Type, len(tdefs))
					return
				}
				if f.Lines[tdefs[0]].Global {
					bad("table-scope", "table label %q is exported", tl)
					return
				}
				rows := codeUntilBlank(f, tdefs[0]+1)
				lastRow := ""
				if len(rows) > 0 {
					lastRow = rows[len(rows)-1].Text
				}
				if len(rows) != len(e.Rows)+1 || strings.TrimSpace(lastRow) != ".2byte 0" {
					bad("table-shape", "table %s: %d lines, expected %d rows + '.2byte 0'; last line %q", tl, len(rows), len(e.Rows), lastRow)
					return
				}
				for i, r := range e.Rows {
					l := rows[i]
					rest, lbl := asm.SplitLast(l.Args)
					wantVV := expandC08(strings.Join(r.Var, " ") + ", " + strings.Join(r.Value, " "))
					if l.Op != "map_script_2" || normLine(rest) != normLine(wantVV) {
						bad("table-row", "table %s row %d: %q, expected map_script_2 %s, <script>", tl, i, strings.TrimSpace(l.Text), wantVV)
						return
					}
					if r.Body == nil {
						if lbl != r.Label {
							bad("table-row-label", "table %s row %d refers to %q, expected %q", tl, i, lbl, r.Label)
							return
						}
					} else {
						inlines = append(inlines, inl{lbl, r.Body})
					}
					k.Count("table_rows_checked", 1)
				}
				k.Count("tables_checked", 1)
			}
			// inline scripts: each has a label of its own, defined once, local, behaves like the body
			seenInline := map[string]bool{}
			for _, in := range inlines {
				if seenInline[in.label] {
					bad("inline-scripts-share-label", "two inline scripts of mapscripts %s are referred to by the same label %q: one of them is not emitted", m.Name, in.label)
					return
				}
				seenInline[in.label] = true
			}
			for _, in := range inlines {
				idefs := f.Labels[in.label]
				if len(idefs) != 1 {
					bad("inline-label", "inline script label %q is defined %d times", in.label, len(idefs))
					return
				}
				if f.Lines[idefs[0]].Global {
					bad("inline-scope", "inline script label %q is exported", in.label)
					return
				}
				bnd[in.label] = true
			}
			for _, in := range inlines {
				sec, err := f.SectionOf(in.label, bnd)
				if err != nil {
					bad("inline-label", "%v", err)
					return
				}
				interp := ref.New(in.body, rp.AutoVars)
				vm := &asm.VM{F: f, Sec: sec, UserTargets: userTargetsOf(rp)}
				// second witness: the same body compiled as a script statement on its own
				alone := &spec.Program{AutoVars: rp.AutoVars, Switches: rp.Switches}
				alone.Items = []spec.Item{&spec.Script{ID: 1 << 30, Scope: spec.ScopeLocal, Name: in.label, Body: in.body}}
				ares := h.Compile(spec.Source(alone), optsOf(rp, opt))
				k.Count("evaluations", 1)
				var vm2 *asm.VM
				if ares.OK() {
					f2 := asm.Parse(ares.Out)
					sec2, err := f2.SectionOf(in.label, boundaryOf(alone, f2))
					if err != nil {
						bad("script-statement-entry", "the body of inline script %s compiled as a script statement: %v", in.label, err)
						return
					}
					vm2 = &asm.VM{F: f2, Sec: sec2, UserTargets: userTargetsOf(rp)}
				} else {
					bad("inline-accepted-script-rejected", "the body of inline script %s is accepted inline but rejected as a script statement: %s", in.label, ares.ErrString())
					return
				}
				for si := 0; si < ctx.N(5, 12); si++ {
					st := &ref.HashState{Seed: h.Hash64(k.C.Seed, k.Sub, k.Index, in.label, si), Cands: g.Cands()}
					rt, vt := interp.Run(st), vm.Run(st)
					k.Count("vm_runs", 1)
					a, b := rt.Cmds(), vt.Cmds()
					if len(vt.Problems) > 0 || !eqStrings(a, b) {
						bad("inline-behaviour", "inline script %s state %d: %s\n%s", in.label, si, strings.Join(vt.Problems, "; "), diffTraces(a, b))
						return
					}
					if vm2 != nil {
						vt2 := vm2.Run(st)
						if c := vt2.Cmds(); !eqStrings(b, c) {
							bad("inline-vs-script", "inline script %s behaves differently from the same body compiled as a script statement\n inline: %v\n script: %v", in.label, b, c)
							return
						}
						k.Count("compared_with_script_statement", 1)
					}
				}
				k.Count("inline_scripts_checked", 1)
			}
			var sig strings.Builder
			for _, e := range m.Entries {
				fmt.Fprintf(&sig, "%d", e.Kind)
				if e.Kind == 2 {
					sig.WriteString("[")
					for _, r := range e.Rows {
						if r.Body != nil {
							sig.WriteString("i")
						} else {
							sig.WriteString("p")
						}
					}
					sig.WriteString("]")
				}
			}
			k.Nontrivial(sig.String())
		}
		_ = maps
		k.Sample("mapscripts", pr.Src)
	})
	rejectGuard(ctx, 0.5)
	return ctx.Finish(
		"mapscripts statements with 0..8 entries mixing plain (T: Label), inline (T { body }) and table (T [ var, value: Label | var, value { body } ]) entries in any order, 0..6 rows, multi-token vars/values, both scopes; inline bodies with control flow, inline text and poryswitch. Oracle: header lists plain+inline entries in source order, then table entries in source order, then .byte 0; each table label defined once, local, rows in source order with the written var/value, then .2byte 0; every inline label (read from the header/table, not from a naming rule) defined once and local; VM trace from each inline label equals the reference run of the body and the VM trace of the same body compiled as a script statement. distinct = entry-kind/row-kind signature",
		ctx.N(300, 3000),
		[]string{"a map script type may repeat within one statement (one entry in eight); when two entries both need the label <map>_<TYPE> the compiler has to reject the file (an accepted one would define that label twice)"})
}

// expandC08 substitutes the two constants the C08 generator defines.
func expandC08(s string) string {
	s = strings.ReplaceAll(s, "$TBL_BASE", "4")
	return strings.ReplaceAll(s, "$TBL_VAR", "VAR_TEMP_0 + 1")
}

// manyChunkBody builds a body that compiles to at least n chunks: a command, an
// if, and a switch with n cases whose bodies are single commands.
func manyChunkBody(g *spec.Gen, n int) *spec.Block {
	b := &spec.Block{ID: g.Prog.NewID()}
	b.Stmts = append(b.Stmts, &spec.CmdStmt{Cmd: g.Cmd()})
	fl := &spec.Leaf{ID: g.Prog.NewID(), Kind: spec.LeafFlag, Operand: []string{g.Name("FLAG_M")}}
	b.Stmts = append(b.Stmts, &spec.If{ID: g.Prog.NewID(), Arms: []*spec.Arm{{Cond: fl, Body: &spec.Block{ID: g.Prog.NewID(), Stmts: []spec.Stmt{&spec.CmdStmt{Cmd: g.Cmd()}}}}}})
	sw := &spec.Switch{ID: g.Prog.NewID(), Operand: []string{g.Name("VAR_M")}}
	for i := 0; i < n; i++ {
		sw.Cases = append(sw.Cases, &spec.Case{ID: g.Prog.NewID(), Value: []string{fmt.Sprint(i)}, Body: &spec.Block{ID: g.Prog.NewID(), Stmts: []spec.Stmt{&spec.CmdStmt{Cmd: g.Cmd()}}}})
	}
	b.Stmts = append(b.Stmts, sw, &spec.CmdStmt{Cmd: g.Cmd()})
	return b
}
