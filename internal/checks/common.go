package checks

import (
	"fmt"
	"os"
	"sort"
	"strings"
	"sync"

	"github.com/huderlem/poryscript/parser"

	"verif.local/pvmon/internal/asm"
	"verif.local/pvmon/internal/h"
	"verif.local/pvmon/internal/ref"
	"verif.local/pvmon/internal/spec"
)

// cfgOf converts the generator's AutoVar table to the library's config type.
func cfgOf(p *spec.Program) parser.CommandConfig {
	c := parser.CommandConfig{AutoVarCommands: map[string]parser.AutoVarCommand{}}
	for name, av := range p.AutoVars {
		if av.ArgPos >= 0 {
			pos := av.ArgPos
			// (a configured position wins over a var_name given as well)
			c.AutoVarCommands[name] = parser.AutoVarCommand{VarName: av.VarName, VarNameArgPosition: &pos}
		} else {
			c.AutoVarCommands[name] = parser.AutoVarCommand{VarName: av.VarName}
		}
	}
	return c
}

// optsOf returns the base compile options of a program.
func optsOf(p *spec.Program, optimize bool) h.Opts {
	return h.Opts{Optimize: optimize, Cfg: cfgOf(p), Switches: p.Switches, FontPath: h.RepoDir + "/font_config.json"}
}

// scriptsOf lists every script-like body of a (resolved) program: script
// statements and inline map scripts, with the entry label each must have.
type scriptRef struct {
	Entry  string
	Body   *spec.Block
	Inline bool
}

func scriptsOf(p *spec.Program) []scriptRef {
	var out []scriptRef
	for _, it := range p.Items {
		switch x := it.(type) {
		case *spec.Script:
			out = append(out, scriptRef{Entry: x.Name, Body: x.Body})
		case *spec.MapScripts:
			for _, e := range x.Entries {
				if e.Kind == 1 {
					out = append(out, scriptRef{Entry: x.Name + "_" + e.Type, Body: e.Body, Inline: true})
				}
				if e.Kind == 2 {
					for i, r := range e.Rows {
						if r.Body != nil {
							out = append(out, scriptRef{Entry: fmt.Sprintf("%s_%s_%d", x.Name, e.Type, i), Body: r.Body, Inline: true})
						}
					}
				}
			}
		}
	}
	return out
}

// itemNames returns the names of all top-level items (and table labels).
func itemNames(p *spec.Program) map[string]bool {
	m := map[string]bool{}
	for _, it := range p.Items {
		switch x := it.(type) {
		case *spec.Script:
			m[x.Name] = true
		case *spec.TextItem:
			m[x.Name] = true
		case *spec.MovementItem:
			m[x.Name] = true
		case *spec.MartItem:
			m[x.Name] = true
		case *spec.MapScripts:
			m[x.Name] = true
		}
	}
	for _, s := range scriptsOf(p) {
		m[s.Entry] = true
	}
	return m
}

// allCmds walks every command of a block (statements, conditions, switch operands).
func allCmds(b *spec.Block, fn func(c *spec.Cmd)) {
	if b == nil {
		return
	}
	var cond func(c spec.Cond)
	cond = func(c spec.Cond) {
		switch x := c.(type) {
		case *spec.And:
			for _, k := range x.Xs {
				cond(k)
			}
		case *spec.Or:
			for _, k := range x.Xs {
				cond(k)
			}
		case *spec.Not:
			cond(x.X)
		case *spec.Paren:
			cond(x.X)
		case *spec.Leaf:
			if x.Auto != nil {
				fn(x.Auto)
			}
		}
	}
	for _, st := range b.Stmts {
		switch x := st.(type) {
		case *spec.CmdStmt:
			fn(x.Cmd)
		case *spec.If:
			for _, a := range x.Arms {
				cond(a.Cond)
				allCmds(a.Body, fn)
			}
			allCmds(x.Else, fn)
		case *spec.While:
			if x.Cond != nil {
				cond(x.Cond)
			}
			allCmds(x.Body, fn)
		case *spec.DoWhile:
			allCmds(x.Body, fn)
			cond(x.Cond)
		case *spec.Switch:
			if x.Auto != nil {
				fn(x.Auto)
			}
			for _, c := range x.Cases {
				allCmds(c.Body, fn)
			}
		case *spec.PorySwitch:
			for _, c := range x.Cases {
				allCmds(c.Body, fn)
			}
		}
	}
}

// boundaryOf computes the set of labels that end a script's section: names of
// top-level items, inline map scripts and tables, labels that introduce data
// (next code line is a directive), and labels that the emitted commands carry
// in argument slots where the author wrote inline text or moves().
func boundaryOf(p *spec.Program, f *asm.File) map[string]bool {
	b := itemNames(p)
	for name, defs := range f.Labels {
		for _, d := range defs {
			n := f.NextCode(d)
			if n < len(f.Lines) && f.Lines[n].IsData() {
				b[name] = true
			}
		}
	}
	// movement blocks: a label whose block (up to the next blank line or label)
	// ends in step_end
	for name, defs := range f.Labels {
		for _, d := range defs {
			last := -1
			for i := d + 1; i < len(f.Lines); i++ {
				if f.Lines[i].Kind == asm.KMarker {
					continue
				}
				if f.Lines[i].Kind != asm.KInstr {
					break
				}
				last = i
			}
			if last >= 0 && f.Lines[last].Op == "step_end" {
				b[name] = true
			}
		}
	}
	// labels the hoisting model predicts
	lm := buildLabelModel(p)
	for _, t := range lm.Texts {
		b[t.Label] = true
	}
	for _, m := range lm.Moves {
		b[m.Label] = true
	}
	// inline text/moves slots
	byOp := map[string]*asm.Line{}
	for i := range f.Lines {
		l := &f.Lines[i]
		if l.Kind == asm.KInstr {
			if _, dup := byOp[l.Op]; !dup {
				byOp[l.Op] = l
			}
		}
	}
	for _, s := range scriptsOf(p) {
		allCmds(s.Body, func(c *spec.Cmd) {
			l := byOp[c.Name]
			if l == nil {
				return
			}
			parts := strings.Split(l.Args, ",")
			for i, a := range c.Args {
				if (a.Text != nil || a.Moves != nil) && len(parts) == len(c.Args) {
					b[strings.TrimSpace(parts[i])] = true
				}
			}
		})
	}
	// map script tables / inline names referenced from headers
	for _, r := range f.Refs() {
		if r.Kind == "map_script" || r.Kind == "map_script_2" {
			b[r.Label] = true
		}
	}
	return b
}

// diffTraces renders two traces side by side for a report.
func diffTraces(a, b []string) string {
	var sb strings.Builder
	n := len(a)
	if len(b) > n {
		n = len(b)
	}
	first := -1
	for i := 0; i < n; i++ {
		var x, y string
		if i < len(a) {
			x = a[i]
		}
		if i < len(b) {
			y = b[i]
		}
		if x != y && first < 0 {
			first = i
		}
	}
	fmt.Fprintf(&sb, "first difference at event %d\n  reference (source semantics): %s\n  assembly VM:                  %s", first, strings.Join(a, " ; "), strings.Join(b, " ; "))
	return sb.String()
}

func eqStrings(a, b []string) bool {
	if len(a) != len(b) {
		return false
	}
	for i := range a {
		if a[i] != b[i] {
			return false
		}
	}
	return true
}

// shapeOfBlock is a structural signature of a block with names abstracted.
func shapeOfBlock(b *spec.Block) string {
	var sb strings.Builder
	var cond func(c spec.Cond)
	cond = func(c spec.Cond) {
		switch x := c.(type) {
		case *spec.And:
			sb.WriteString("&(")
			for _, k := range x.Xs {
				cond(k)
			}
			sb.WriteString(")")
		case *spec.Or:
			sb.WriteString("|(")
			for _, k := range x.Xs {
				cond(k)
			}
			sb.WriteString(")")
		case *spec.Not:
			sb.WriteString("!(")
			cond(x.X)
			sb.WriteString(")")
		case *spec.Paren:
			sb.WriteString("p(")
			cond(x.X)
			sb.WriteString(")")
		case *spec.Leaf:
			sb.WriteString(x.Kind[:1])
			if x.Bang {
				sb.WriteString("!")
			}
			sb.WriteString(x.Op)
			if x.Raw {
				sb.WriteString("R")
			}
		}
	}
	var blk func(b *spec.Block)
	blk = func(b *spec.Block) {
		if b == nil {
			sb.WriteString("~")
			return
		}
		sb.WriteString("{")
		for _, st := range b.Stmts {
			switch x := st.(type) {
			case *spec.CmdStmt:
				switch x.Cmd.Name {
				case "end", "return", "goto":
					sb.WriteString(x.Cmd.Name[:1] + ";")
				default:
					sb.WriteString("c;")
				}
			case *spec.Label:
				sb.WriteString("L;")
			case *spec.If:
				sb.WriteString("if")
				for _, a := range x.Arms {
					cond(a.Cond)
					blk(a.Body)
				}
				blk(x.Else)
			case *spec.While:
				sb.WriteString("wh")
				if x.Cond != nil {
					cond(x.Cond)
				}
				blk(x.Body)
			case *spec.DoWhile:
				sb.WriteString("do")
				blk(x.Body)
				cond(x.Cond)
			case *spec.Break:
				sb.WriteString("B;")
			case *spec.Continue:
				sb.WriteString("C;")
			case *spec.Switch:
				sb.WriteString("sw")
				if x.Auto != nil {
					sb.WriteString("A")
				}
				for _, c := range x.Cases {
					if c.Default {
						sb.WriteString("d")
					} else {
						sb.WriteString("k")
					}
					blk(c.Body)
				}
			case *spec.PorySwitch:
				sb.WriteString("ps")
				for _, c := range x.Cases {
					blk(c.Body)
				}
			}
		}
		sb.WriteString("}")
	}
	blk(b)
	return sb.String()
}

// rejectFamily reduces an error message to a short family name for counters.
func rejectFamily(msg string) string {
	if strings.HasPrefix(msg, "line ") {
		if i := strings.Index(msg, ": "); i > 0 {
			msg = msg[i+2:]
		}
	}
	w := strings.Fields(msg)
	if len(w) > 6 {
		w = w[:6]
	}
	for i, x := range w {
		if strings.ContainsAny(x, "'0123456789") && i > 1 {
			w[i] = "_"
		}
	}
	return strings.Join(w, " ")
}

func sortedKeys(m map[string]bool) []string {
	out := make([]string, 0, len(m))
	for k := range m {
		out = append(out, k)
	}
	sort.Strings(out)
	return out
}

// vmCheck runs every script of the resolved program rp on the VM and the
// reference interpreter under nStates random states and reports differences.
// what selects the comparison: "cmds" (command names + terminal) or "full"
// (commands by full text, queries, terminal).
type vmCheckOpts struct {
	NStates int
	Full    bool
	Render  func(c *spec.Cmd) string
	Cands   []int
	KeyFn   func(msg string) string
	// Orig, when set, is the generated (unresolved) program: a failing case is
	// shrunk on it and the reduced program is attached to the witness.
	Orig     *spec.Program
	Optimize bool
	// NoDecisionWalk switches the bounded depth-first walk over decision sequences off
	NoDecisionWalk bool
}

func vmCheck(k *h.Case, rp *spec.Program, out string, o vmCheckOpts, tag string) (ok bool) {
	f := asm.Parse(out)
	bnd := boundaryOf(rp, f)
	ok = true
	for _, s := range scriptsOf(rp) {
		sec, err := f.SectionOf(s.Entry, bnd)
		if err != nil {
			k.Violation("entry-label", fmt.Sprintf("[%s] %v", tag, err), map[string]interface{}{"output": out})
			ok = false
			continue
		}
		in := ref.New(s.Body, rp.AutoVars)
		in.Render = o.Render
		vm := &asm.VM{F: f, Sec: sec, Hits: map[int]bool{}, UserTargets: userTargetsOf(rp)}
		paths := map[uint64]bool{}
		// at least NStates states; keep going (up to 6x) while new instructions are still being reached
		lastGain := 0
		// judge compares one pair of runs; false = violation reported
		judge := func(rt, vt *ref.Trace, what string) bool {
			k.Count("vm_runs", 1)
			var a, b []string
			if o.Full {
				a, b = normFull(rt), normFull(vt)
			} else {
				a, b = rt.Cmds(), vt.Cmds()
			}
			paths[h.Hash64(strings.Join(a, ";"))] = true
			if rt.Term == "truncated" {
				k.Count("truncated_runs", 1)
			}
			if rt.Term == "silent-loop" {
				k.Count("silent_loop_runs", 1)
			}
			if strings.HasPrefix(rt.Term, "problem:") {
				k.C.Inconclusive("reference interpreter problem: %s", rt.Term)
				return true
			}
			if len(vt.Problems) > 0 || !eqStrings(a, b) {
				msg := fmt.Sprintf("[%s] script %s, %s: ", tag, s.Entry, what)
				if len(vt.Problems) > 0 {
					msg += "VM problem: " + strings.Join(vt.Problems, "; ") + "\n"
				}
				msg += diffTraces(a, b)
				key := ""
				if o.KeyFn != nil {
					key = o.KeyFn(msg)
				}
				det := map[string]interface{}{"output": out, "entry": s.Entry}
				if o.Orig != nil {
					if msrc, mout := minimalWitness(k, o.Orig, o.Optimize, o); msrc != "" {
						det["minimal_source"] = msrc
						det["minimal_output"] = mout
						msg += "\nreduced witness:\n" + msrc
					}
				}
				k.Violation(key, msg, det)
				return false
			}
			return true
		}
		for si := 0; si < o.NStates || (si-lastGain < o.NStates && si < 6*o.NStates); si++ {
			st := &ref.HashState{Seed: h.Hash64(k.C.Seed, k.Sub, k.Index, s.Entry, si), Cands: o.Cands}
			rt := in.Run(st)
			before := len(vm.Hits)
			vt := vm.Run(st)
			if len(vm.Hits) > before {
				lastGain = si
			}
			if !judge(rt, vt, fmt.Sprintf("state %d", si)) {
				ok = false
				break
			}
		}
		// then walk the decision tree of the script depth-first (first queries answered 0/1, vars 0..2), which
		// reaches branches that hash-derived states rarely take; bounded by a path budget
		if ok && !o.NoDecisionWalk {
			var dec []int
			for n := 0; n < 4*o.NStates; n++ {
				st := ref.NewDecState(dec)
				rt := in.Run(st)
				vt := vm.Run(st.Freeze())
				k.Count("decision_walk_runs", 1)
				if !judge(rt, vt, fmt.Sprintf("decisions %v", dec)) {
					ok = false
					break
				}
				next, more := ref.NextDecisions(dec, st.Arity, 14)
				if !more {
					k.Count("decision_walks_exhausted", 1)
					break
				}
				dec = next
			}
		}
		k.Count("decision_paths", int64(len(paths)))
		ninstr := 0
		for i := sec.Start; i < sec.End; i++ {
			if f.Lines[i].Kind == asm.KInstr {
				ninstr++
			}
		}
		k.Count("instr_emitted", int64(ninstr))
		k.Count("instr_executed", int64(len(vm.Hits)))
		if _, reached := f.ReachProblems(sec, []int{sec.Start}, userTargetsOf(rp)); reached > 0 {
			k.Count("instr_reachable_from_entry", int64(reached))
			if len(vm.Hits)*10 >= reached*9 {
				k.Count("scripts_with_90pct_of_reachable_instructions_executed", 1)
			}
			k.Count("scripts_run", 1)
		}
	}
	return ok
}

// normFull renders a full trace with command texts reduced to token sequences.
func normFull(t *ref.Trace) []string {
	var out []string
	evs := t.Events
	if t.Term == "silent-loop" {
		// the two machines notice a silent loop after a different number of
		// (identical, side-effect free) tests: compare up to the last command
		for len(evs) > 0 && evs[len(evs)-1].K != 'c' {
			evs = evs[:len(evs)-1]
		}
	}
	for _, e := range evs {
		if e.K == 'q' && e.Name == "switch" {
			// an all-empty switch may be elided; which var is switched on is
			// decided by behaviour (C03), not by comparing this event
			continue
		}
		if e.K == 'c' {
			out = append(out, "cmd "+normLine(e.Text))
		} else {
			out = append(out, e.String())
		}
	}
	return append(out, "=>"+t.Term)
}

// debugReject prints a rejected source when VERIF_DEBUG_REJECT is a substring
// of the error (development aid).
func debugReject(src, err string) {
	if pat := os.Getenv("VERIF_DEBUG_REJECT"); pat != "" && strings.Contains(err, pat) {
		debugOnce.Do(func() { fmt.Fprintf(os.Stderr, "---- rejected (%s)\n%s\n----\n", err, src) })
	}
}

var debugOnce sync.Once

// userTargetsOf lists the labels the author wrote as jump targets (goto,
// goto_if_set, goto_if_unset commands): they may legitimately be external.
func userTargetsOf(p *spec.Program) map[string]bool {
	m := map[string]bool{}
	for _, s := range scriptsOf(p) {
		allCmds(s.Body, func(c *spec.Cmd) {
			switch {
			case c.Name == "goto" && len(c.Args) == 1:
				m[strings.Join(c.Args[0].Toks, " ")] = true
			case (c.Name == "goto_if_set" || c.Name == "goto_if_unset") && len(c.Args) == 2:
				m[strings.Join(c.Args[1].Toks, " ")] = true
			}
		})
	}
	return m
}

// rejectGuard makes the run inconclusive when the compiler rejected more than
// maxFrac of the intended-valid programs: rejections are not violations of the
// property, but a monitor that mostly sees rejections has observed too little.
// rejectedValid judges the rejection of a program that the generator built to be valid. The one rejection the
// generator can foresee is a poryswitch without a case for the -s value and without '_' (decidable from the
// program); alsoExpected lists further message fragments a particular workload can foresee. A compiler panic is
// always reported. Any other rejection is a violation where the property itself implies that the construct
// compiles (implies = true), and makes the run inconclusive otherwise: a monitor must not call a property
// "held" next to programs it could not look at.
func rejectedValid(k *h.Case, prog *spec.Program, res h.Result, implies bool, alsoExpected ...string) {
	if res.Panic != nil {
		k.Violation("compiler-panic", fmt.Sprintf("the compiler panics on a program that is valid by construction: %v", res.Panic), map[string]interface{}{"stack": res.Stack})
		return
	}
	msg := res.ErrString()
	if strings.Contains(msg, "no poryswitch case found") {
		if _, rerr := spec.Resolve(prog, prog.Switches); rerr != nil || spec.AnyUnmatched(prog, prog.Switches) {
			return
		}
	}
	for _, e := range alsoExpected {
		if e != "" && strings.Contains(msg, e) {
			return
		}
	}
	k.Count("unforeseen_rejections", 1)
	if implies {
		k.Violation("valid-program-rejected", fmt.Sprintf("a program that is valid by construction is rejected: %s", msg), nil)
		return
	}
	k.C.Inconclusive("a program that is valid by construction is rejected (%s): the property says nothing about it, but it could not be observed", rejectFamily(msg))
}

// acceptedUnmatched is called when a program is accepted although a poryswitch on its selected path has neither a
// case for the -s value nor '_' (property C12 forbids that; the calling check cannot judge such a program).
func acceptedUnmatched(k *h.Case) {
	k.Count("accepted_without_selected_case", 1)
	k.C.Inconclusive("a program was accepted although a poryswitch has no case for the -s value and no '_' (see C12); its output cannot be judged here")
}

func rejectGuard(ctx *h.Ctx, maxFrac float64) {
	if ctx.OnlySub != "" {
		return
	}
	rej, acc := ctx.Counter("rejected"), ctx.Counter("accepted")
	if rej+acc > 0 && float64(rej) > maxFrac*float64(rej+acc) {
		ctx.Inconclusive("%d of %d intended-valid programs were rejected by the compiler (limit %.0f%%); see the 'rejected:' counters", rej, rej+acc, maxFrac*100)
	}
}
