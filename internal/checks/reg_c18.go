package checks

import "verif.local/pvmon/internal/c18"

func init() { Registry["C18"] = c18.Run; WorkerFns["c18"] = c18.Worker }
