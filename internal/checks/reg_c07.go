package checks

import "verif.local/pvmon/internal/c07"

func init() { Registry["C07"] = c07.Run }
