// Package c19 monitors property C19: tokenisation ignores layout and comments
// and reports true positions.
//
// The workload is a *lexeme list* (the generator knows the intended token type
// and literal of every lexeme it writes) rendered under several *layouts*
// (arbitrary runs of spaces, tabs, LF/CRLF newlines and '#' / '//' comments
// between lexemes, nothing at all where two lexemes stay two lexemes when
// glued).  While rendering, the layout engine records the line, byte column and
// rune column of the first character of every token and its byte / rune length.
// The real lexer is then run on the rendered text and compared with that record.
// Nothing here calls the lexer to compute an expectation.
package c19

import (
	"fmt"
	"math/rand/v2"
	"path/filepath"
	"strings"
	"sync"
	"unicode"
	"unicode/utf8"

	"github.com/huderlem/poryscript/lexer"
	"github.com/huderlem/poryscript/token"

	"verif.local/pvmon/internal/h"
)

// ---------------------------------------------------------------------------
// Lexemes and what the generator intends them to be

const (
	kWord  = iota // identifier or keyword
	kNum          // integer literal
	kStr          // string literal of one or more quoted parts (ONE token)
	kPStr         // string-type prefix glued to a string literal (TWO tokens)
	kRaw          // raw string in back-ticks
	kOp           // operator or delimiter
	kStray        // stray character (ILLEGAL)
)

type lexeme struct {
	kind   int
	text   string   // full source text (kWord, kNum, kRaw incl. back-ticks, kOp, kStray)
	prefix string   // kPStr: the string-type identifier
	parts  []string // kStr, kPStr: contents of the quoted parts (without quotes)
}

// expTok is an intended token.
type expTok struct {
	typ string
	lit string
}

// The keyword table as documented (written out independently of token.go).
var keywordType = map[string]string{
	"script": "SCRIPT", "raw": "RAW", "text": "TEXT", "movement": "MOVEMENT", "mart": "MART",
	"mapscripts": "MAPSCRIPTS", "format": "FORMAT", "var": "VAR", "flag": "FLAG", "defeated": "DEFEATED",
	"TRUE": "TRUE", "FALSE": "FALSE", "true": "TRUE", "false": "FALSE",
	"if": "IF", "else": "ELSE", "elif": "ELSEIF", "do": "DO", "while": "WHILE", "break": "BREAK",
	"continue": "CONTINUE", "switch": "SWITCH", "case": "CASE", "default": "DEFAULT", "global": "GLOBAL",
	"local": "LOCAL", "poryswitch": "PORYSWITCH", "const": "CONST", "value": "VALUE", "moves": "MOVES",
}

var keywordList = []string{"script", "raw", "text", "movement", "mart", "mapscripts", "format", "var", "flag",
	"defeated", "TRUE", "FALSE", "true", "false", "if", "else", "elif", "do", "while", "break", "continue",
	"switch", "case", "default", "global", "local", "poryswitch", "const", "value", "moves"}

var nearKeywords = []string{"If", "iff", "Script", "elseif", "While", "whiles", "do_", "_if", "TRUEE", "True",
	"False", "Case", "defaults", "mover", "vars", "flags", "raw_", "textual", "constant", "glob", "end",
	"return", "lock", "x", "_", "__", "a1", "_9", "VAR_TEMP_0", "FLAG_X_2"}

var ops2 = []string{"==", "!=", "<=", ">=", "&&", "||"}
var ops1 = []string{"*", "=", "<", ">", "!"}
var delims = []string{"(", ")", "[", "]", "{", "}", ",", ":"}

var asciiFirst = "abcdefghijklmnopqrstuvwxyzABCDEFGHIJKLMNOPQRSTUVWXYZ_"
var asciiRest = asciiFirst + "0123456789"

// (the second line: letters whose code point ends in the byte of an ASCII character the lexer treats specially -
// blank, tab, LF, CR, quote, '#', '/', '(', ')', ',', ':', '{', '}', back-tick, '0', NUL)
var mbLetters = []string{"é", "ñ", "ü", "Ж", "я", "ポ", "ケ", "漢", "字", "λ", "ß", "𝒳",
	"Ġ", "ĉ", "Ċ", "č", "三", "上", "不", "Ģ", "ģ", "į", "Ĩ", "ĩ", "Ĭ", "ĺ", "Ż", "Ž", "Š", "İ", "Ā", "Ŝ"}
var strayASCII = []string{"@", "$", ";", "&", "|", "/", "-", ".", "?", "%", "+", "'", "\\", "~", "^"}
var strayMB = []string{"→", "€", "♥", "…", "¿", "★", "😀", "§", "«", "†", "•", "‣", "‰", "℠"}
var prefixes = []string{"ascii", "braille", "custom", "é", "utf8_ポ", "a1", "_s", "text", "if", "format", "raw", "const", "string"}

func isWordRune(r rune) bool { return r == '_' || unicode.IsLetter(r) || unicode.IsDigit(r) }

// poolsOK checks the generator's own alphabets from first principles.
func poolsOK() error {
	for _, s := range mbLetters {
		r, n := utf8.DecodeRuneInString(s)
		if n != len(s) || n < 2 || !unicode.IsLetter(r) || r == utf8.RuneError {
			return fmt.Errorf("mbLetters entry %q is not one multi-byte letter", s)
		}
	}
	for _, s := range append(append([]string{}, strayASCII...), strayMB...) {
		r, n := utf8.DecodeRuneInString(s)
		if n != len(s) || isWordRune(r) || unicode.IsSpace(r) || r == utf8.RuneError || r == '#' || r == '"' || r == '`' {
			return fmt.Errorf("stray entry %q is not a single stray character", s)
		}
	}
	for _, s := range strayMB {
		if len(s) < 2 {
			return fmt.Errorf("strayMB entry %q is not multi-byte", s)
		}
	}
	return nil
}

func (lx lexeme) intended() []expTok {
	switch lx.kind {
	case kWord:
		if t, ok := keywordType[lx.text]; ok {
			return []expTok{{t, lx.text}}
		}
		return []expTok{{"IDENT", lx.text}}
	case kNum:
		return []expTok{{"INT", lx.text}}
	case kStr:
		return []expTok{{"STRING", strings.Join(lx.parts, "\n")}}
	case kPStr:
		return []expTok{{"STRINGTYPE", lx.prefix}, {"STRING", strings.Join(lx.parts, "\n")}}
	case kRaw:
		return []expTok{{"RAWSTRING", lx.text[1 : len(lx.text)-1]}}
	case kOp:
		return []expTok{{lx.text, lx.text}}
	default:
		return []expTok{{"ILLEGAL", lx.text}}
	}
}

func isASCII(s string) bool {
	for i := 0; i < len(s); i++ {
		if s[i] >= 0x80 {
			return false
		}
	}
	return true
}

// class names the lexeme class used in counters and shape signatures.
func (lx lexeme) class() string {
	switch lx.kind {
	case kWord:
		if _, ok := keywordType[lx.text]; ok {
			return "keyword"
		}
		if isASCII(lx.text) {
			return "ident-ascii"
		}
		return "ident-mb"
	case kNum:
		switch {
		case strings.HasPrefix(lx.text, "-"):
			return "int-neg"
		case strings.HasPrefix(lx.text, "0x"):
			return "int-hex"
		case strings.HasPrefix(lx.text, "0"):
			return "int-zero"
		}
		return "int-dec"
	case kStr:
		if len(lx.parts) > 1 {
			return "string-multi"
		}
		return "string"
	case kPStr:
		return "pstring"
	case kRaw:
		return "raw"
	case kOp:
		if len(lx.text) == 2 {
			return "op2"
		}
		if strings.Contains("*=<>!", lx.text) {
			return "op1"
		}
		return "delim"
	default:
		if isASCII(lx.text) {
			return "illegal-ascii"
		}
		return "illegal-mb"
	}
}

func (lx lexeme) firstRune() rune {
	switch lx.kind {
	case kStr:
		return '"'
	case kPStr:
		r, _ := utf8.DecodeRuneInString(lx.prefix)
		return r
	}
	r, _ := utf8.DecodeRuneInString(lx.text)
	return r
}

func (lx lexeme) lastRune() rune {
	switch lx.kind {
	case kStr, kPStr:
		return '"'
	}
	r, _ := utf8.DecodeLastRuneInString(lx.text)
	return r
}

// ---------------------------------------------------------------------------
// Random lexemes

func genIdent(r *rand.Rand, forceMB bool) string {
	n := 1 + r.IntN(9)
	var sb strings.Builder
	hasMB := false
	for i := 0; i < n; i++ {
		if (forceMB && r.IntN(3) == 0) || (forceMB && i == n-1 && !hasMB) {
			sb.WriteString(h.Pick(r, mbLetters))
			hasMB = true
			continue
		}
		if i == 0 {
			sb.WriteByte(asciiFirst[r.IntN(len(asciiFirst))])
		} else {
			sb.WriteByte(asciiRest[r.IntN(len(asciiRest))])
		}
	}
	s := sb.String()
	if _, ok := keywordType[s]; ok {
		s += "_"
	}
	return s
}

var strPieces = []string{"Hello", "world", " ", "  ", "#", "//", "# not a comment", "// neither", "é", "ポケモン", "Ж",
	"→", "😀", "\\n", "\\p", "\\l", "{PLAYER}", "$", "`", "\t", "'", "123", "0x1F", "!", "?", ".", ",", ":", ";",
	"(", ")", "[", "]", "{", "}", "==", "&&", "script", "if", "-5", "*", "é$", "I'm glad to sée", "\uFFFD", "caf\uFFFD", "\uFEFF", "\u2028", "\u00A0", "三上不", "čĊĠ", "†", "Ģģ"}

func genStrContent(r *rand.Rand) string {
	n := r.IntN(6)
	var sb strings.Builder
	for i := 0; i < n; i++ {
		sb.WriteString(h.Pick(r, strPieces))
	}
	return sb.String()
}

var rawLines = []string{"\t.byte 0", "Label_1::", "\t.string \"Hi // there # $\"", "  step_end", "\t.2byte 0x10, é",
	"", "# looks like a comment", "// so does this", "\twalk_up ポ →", "MyData: .4byte 1, 2, 3", "\t\"quoted\""}

func genRaw(r *rand.Rand) string {
	nl := "\n"
	if r.IntN(4) == 0 {
		nl = "\r\n"
	}
	var sb strings.Builder
	sb.WriteByte('`')
	switch r.IntN(4) {
	case 0: // single line
		sb.WriteString(strings.TrimSpace(h.Pick(r, rawLines)))
	default:
		if r.IntN(3) > 0 {
			sb.WriteString(nl)
		}
		n := 1 + r.IntN(4)
		for i := 0; i < n; i++ {
			sb.WriteString(h.Pick(r, rawLines))
			if i < n-1 || r.IntN(2) == 0 {
				sb.WriteString(nl)
			}
		}
	}
	sb.WriteByte('`')
	return sb.String()
}

func genNumber(r *rand.Rand, class int) string {
	switch class {
	case 0: // decimal not starting with 0
		s := string(rune('1' + r.IntN(9)))
		for i := r.IntN(5); i > 0; i-- {
			s += string(rune('0' + r.IntN(10)))
		}
		return s
	case 1: // zero, or decimal with leading zeros
		if r.IntN(3) > 0 {
			return "0"
		}
		s := "0"
		for i := 1 + r.IntN(3); i > 0; i-- {
			s += string(rune('0' + r.IntN(10)))
		}
		return s
	case 2: // hex
		const hx = "0123456789abcdefABCDEF"
		s := "0x"
		for i := 1 + r.IntN(6); i > 0; i-- {
			s += string(hx[r.IntN(len(hx))])
		}
		return s
	default: // negative
		s := "-"
		for i := 1 + r.IntN(4); i > 0; i-- {
			s += string(rune('0' + r.IntN(10)))
		}
		return s
	}
}

// genLexeme draws one lexeme; prev is the previous lexeme (nil at the start):
// a plain string is never put directly after a string, because adjacent quoted
// parts are by definition parts of ONE string token.
func genLexeme(r *rand.Rand, prev *lexeme) lexeme {
	for {
		w := r.IntN(100)
		var lx lexeme
		switch {
		case w < 8:
			lx = lexeme{kind: kOp, text: h.Pick(r, ops2)}
		case w < 15:
			lx = lexeme{kind: kOp, text: h.Pick(r, ops1)}
		case w < 25:
			lx = lexeme{kind: kOp, text: h.Pick(r, delims)}
		case w < 35:
			lx = lexeme{kind: kWord, text: h.Pick(r, keywordList)}
		case w < 45:
			lx = lexeme{kind: kWord, text: genIdent(r, false)}
		case w < 53:
			lx = lexeme{kind: kWord, text: genIdent(r, true)}
		case w < 56:
			lx = lexeme{kind: kWord, text: h.Pick(r, nearKeywords)}
		case w < 61:
			lx = lexeme{kind: kNum, text: genNumber(r, 0)}
		case w < 65:
			lx = lexeme{kind: kNum, text: genNumber(r, 1)}
		case w < 69:
			lx = lexeme{kind: kNum, text: genNumber(r, 2)}
		case w < 72:
			lx = lexeme{kind: kNum, text: genNumber(r, 3)}
		case w < 79:
			lx = lexeme{kind: kStr, parts: []string{genStrContent(r)}}
		case w < 83:
			n := 2 + r.IntN(3)
			lx = lexeme{kind: kStr}
			for i := 0; i < n; i++ {
				lx.parts = append(lx.parts, genStrContent(r))
			}
		case w < 87:
			lx = lexeme{kind: kPStr, prefix: h.Pick(r, prefixes), parts: []string{genStrContent(r)}}
			if r.IntN(4) == 0 {
				lx.parts = append(lx.parts, genStrContent(r))
			}
		case w < 90:
			lx = lexeme{kind: kRaw, text: genRaw(r)}
		case w < 95:
			lx = lexeme{kind: kStray, text: h.Pick(r, strayASCII)}
		default:
			lx = lexeme{kind: kStray, text: h.Pick(r, strayMB)}
		}
		if lx.kind == kStr && prev != nil && (prev.kind == kStr || prev.kind == kPStr) {
			continue
		}
		if len(lx.parts) > 1 && lx.parts[0] == "" {
			// How an EMPTY leading part joins with the following ones is not a layout
			// question (the lexer drops the joining line break there, under every
			// layout alike); the intended literal would be a guess, so steer around it.
			lx.parts[0] = h.Pick(r, []string{"x", "é", " ", "#"})
		}
		return lx
	}
}

// ---------------------------------------------------------------------------
// Layout engine

type sepEl struct {
	kind string // space tab lf crlf hash slash
	text string
}

var cmtPieces = []string{"comment", " ", "é", "ポケモン", "\"", "`", "#", "//", "script", "if (", "}", "0x1F", "→", "😀",
	"\t", "== !=", "'", "TODO: fix", "\"unterminated", "`raw", "-5", "ascii\"x\"", "\uFFFD", "caf\uFFFD au lait", "\uFEFF", "\u2028", "\u00A0", "\u0085", "2 potions", " 100 steps", " 7 \"other.pory\"", "1", "\r", "note:\rlock"}

func genComment(r *rand.Rand, style string) string {
	var sb strings.Builder
	sb.WriteString(style)
	for i := r.IntN(5); i > 0; i-- {
		sb.WriteString(h.Pick(r, cmtPieces))
	}
	return sb.String()
}

func genNL(r *rand.Rand) string {
	if r.IntN(3) == 0 {
		return "\r\n"
	}
	return "\n"
}

// genRun draws a non-empty separator run. When trailing is set the run may end
// inside a comment (no final newline).
func genRun(r *rand.Rand, trailing bool) []sepEl {
	n := 1 + r.IntN(5)
	var els []sepEl
	for i := 0; i < n; i++ {
		w := r.IntN(100)
		switch {
		case w < 30:
			els = append(els, sepEl{"space", strings.Repeat(" ", 1+r.IntN(4))})
		case w < 45:
			els = append(els, sepEl{"tab", strings.Repeat("\t", 1+r.IntN(2))})
		case w < 65:
			els = append(els, sepEl{"lf", "\n"})
		case w < 75:
			els = append(els, sepEl{"crlf", "\r\n"})
		default:
			kind, style := "hash", "#"
			if w >= 87 {
				kind, style = "slash", "//"
			}
			c := genComment(r, style)
			if trailing && i == n-1 && r.IntN(2) == 0 {
				els = append(els, sepEl{kind + "-eof", c})
			} else {
				els = append(els, sepEl{kind, c + genNL(r)})
			}
		}
	}
	return els
}

// genSeps draws the separator runs of one layout: seps[0] precedes the first
// lexeme, seps[i] stands between lexeme i-1 and i, seps[n] follows the last.
func genSeps(r *rand.Rand, n int) [][]sepEl {
	seps := make([][]sepEl, n+1)
	if r.IntN(5) >= 2 {
		seps[0] = genRun(r, false)
	}
	for i := 1; i < n; i++ {
		w := r.IntN(100)
		switch {
		case w < 30: // nothing (the engine inserts one space where gluing would merge)
		case w < 55:
			seps[i] = []sepEl{{"space", " "}}
		default:
			seps[i] = genRun(r, false)
		}
	}
	w := r.IntN(100)
	switch {
	case w < 25:
	case w < 45:
		seps[n] = []sepEl{{"lf", "\n"}}
	case w < 55:
		seps[n] = []sepEl{{"crlf", "\r\n"}}
	default:
		seps[n] = genRun(r, true)
	}
	return seps
}

// needSpaceBetween decides, from first principles, whether two lexemes written
// with nothing between them could stop being those two lexemes.  Conservative:
// when in doubt a separator is required.
func needSpaceBetween(a, b lexeme) bool {
	la, fb := a.lastRune(), b.firstRune()
	if isWordRune(la) && isWordRune(fb) {
		return true // abc def -> abcdef, 0 x1 -> 0x1, 5 a -> 5a
	}
	if a.kind == kWord && fb == '"' {
		return true // ident"..." is a string-type prefix
	}
	if (a.kind == kStr || a.kind == kPStr) && b.kind == kStr {
		panic("generator put a string directly after a string")
	}
	switch {
	case fb == '=' && (la == '=' || la == '!' || la == '<' || la == '>'):
		return true
	case la == '&' && fb == '&', la == '|' && fb == '|', la == '/' && fb == '/':
		return true
	case la == '-' && (unicode.IsDigit(fb) || fb == '-'):
		return true
	}
	return false
}

type placed struct {
	exp      expTok
	class    string
	lexIdx   int
	line     int // 1-based
	bcol     int // 0-based byte column of the first character
	rcol     int // 0-based rune column of the first character
	off      int // byte offset in the source
	endOff   int // byte offset just past the token's last character
	blen     int
	rlen     int
	checkEnd bool // single-line token other than raw / multi-part string
}

type layout struct {
	endLine, endBcol, endRcol int // position just behind the last character of the source
	src                       string
	toks                      []placed
	sepSig                    []string         // one entry per gap
	counts                    map[string]int64 // separators by kind
	eofInCmt                  bool
}

type writer struct {
	sb               strings.Builder
	line, bcol, rcol int
}

func (w *writer) write(s string) {
	for _, r := range s {
		w.sb.WriteRune(r)
		if r == '\n' {
			w.line++
			w.bcol, w.rcol = 0, 0
		} else {
			w.bcol += utf8.RuneLen(r)
			w.rcol++
		}
	}
}

func (w *writer) mark(exp expTok, class string, idx int) placed {
	return placed{exp: exp, class: class, lexIdx: idx, line: w.line, bcol: w.bcol, rcol: w.rcol, off: w.sb.Len()}
}

// writeString writes the quoted parts of a string literal; between parts white
// space and comments (never nothing).
func (w *writer) writeString(r *rand.Rand, parts []string, counts map[string]int64) {
	for i, p := range parts {
		if i > 0 {
			for n := 1 + r.IntN(3); n > 0; n-- {
				switch r.IntN(7) {
				case 5:
					w.write(genComment(r, "#") + genNL(r))
					counts["strpart_sep.hash_comment"]++
				case 6:
					w.write(genComment(r, "//") + genNL(r))
					counts["strpart_sep.slash_comment"]++
				case 0, 1:
					w.write(strings.Repeat(" ", 1+r.IntN(6)))
					counts["strpart_sep.space"]++
				case 2:
					w.write("\t")
					counts["strpart_sep.tab"]++
				case 3:
					w.write("\n")
					counts["strpart_sep.lf"]++
				default:
					w.write("\r\n")
					counts["strpart_sep.crlf"]++
				}
			}
		}
		w.write("\"" + p + "\"")
	}
}

// render lays the lexeme list out with the given separator runs.
func render(r *rand.Rand, lexs []lexeme, seps [][]sepEl) layout {
	lo := layout{counts: map[string]int64{}}
	w := &writer{line: 1}
	for i := 0; i <= len(lexs); i++ {
		els := seps[i]
		// fix-ups that keep the lexemes apart
		if i > 0 {
			prev := lexs[i-1]
			if len(els) == 0 && i < len(lexs) && needSpaceBetween(prev, lexs[i]) {
				els = []sepEl{{"space", " "}}
			}
			if len(els) > 0 && prev.lastRune() == '/' && strings.HasPrefix(els[0].text, "/") {
				els = append([]sepEl{{"space", " "}}, els...) // "/" + "//c" would swallow the stray slash
			}
		}
		var sig []string
		for _, e := range els {
			w.write(e.text)
			kind := e.kind
			if strings.HasSuffix(kind, "-eof") {
				kind = strings.TrimSuffix(kind, "-eof")
				lo.eofInCmt = true
			} else if kind == "hash" || kind == "slash" {
				if strings.HasSuffix(e.text, "\r\n") {
					lo.counts["sep.crlf"]++
				} else {
					lo.counts["sep.lf"]++
				}
			}
			lo.counts["sep."+kind]++
			sig = append(sig, kind)
		}
		if len(els) == 0 {
			if i > 0 && i < len(lexs) {
				lo.counts["sep.none"]++
			}
			sig = append(sig, "none")
		}
		lo.sepSig = append(lo.sepSig, strings.Join(sig, "+"))
		if i == len(lexs) {
			break
		}
		lx := lexs[i]
		exp := lx.intended()
		switch lx.kind {
		case kStr:
			p := w.mark(exp[0], lx.class(), i)
			w.writeString(r, lx.parts, lo.counts)
			p.endOff = w.sb.Len()
			if w.line == p.line {
				// a string token that lies on one line (one part or several): end = start + length
				p.checkEnd = true
				p.blen = p.endOff - p.off
				p.rlen = w.rcol - p.rcol
			}
			lo.toks = append(lo.toks, p)
		case kPStr:
			p := w.mark(exp[0], "stringtype", i)
			w.write(lx.prefix)
			p.endOff = w.sb.Len()
			p.checkEnd = true
			p.blen = len(lx.prefix)
			p.rlen = utf8.RuneCountInString(lx.prefix)
			lo.toks = append(lo.toks, p)
			q := w.mark(exp[1], "string-prefixed", i)
			w.writeString(r, lx.parts, lo.counts)
			q.endOff = w.sb.Len()
			if w.line == q.line {
				q.checkEnd = true
				q.blen = q.endOff - q.off
				q.rlen = w.rcol - q.rcol
			}
			lo.toks = append(lo.toks, q)
		default:
			p := w.mark(exp[0], lx.class(), i)
			w.write(lx.text)
			p.endOff = w.sb.Len()
			p.blen = len(lx.text)
			p.rlen = utf8.RuneCountInString(lx.text)
			p.checkEnd = lx.kind != kRaw
			lo.toks = append(lo.toks, p)
		}
	}
	lo.src = w.sb.String()
	lo.endLine, lo.endBcol, lo.endRcol = w.line, w.bcol, w.rcol
	return lo
}

// ---------------------------------------------------------------------------
// Witness bookkeeping: the harness stores only a few witnesses per run, so at
// most two per failing shape (key) are handed over; every occurrence is counted.

var (
	seenMu sync.Mutex
	seen   = map[string]int{}
)

func report(k *h.Case, key, msg string, details map[string]interface{}) {
	k.Count("violation."+key, 1)
	seenMu.Lock()
	seen[key]++
	n := seen[key]
	seenMu.Unlock()
	if n <= 2 || k.C.OnlySub != "" {
		k.Violation(key, msg, details)
	}
}

// ---------------------------------------------------------------------------
// Running the real lexer

func lexAll(src string, max int) (toks []token.Token, eofs int, pan interface{}, eofTok token.Token) {
	defer func() {
		if r := recover(); r != nil {
			pan = r
		}
	}()
	l := lexer.New(src)
	for len(toks) < max {
		t := l.NextToken()
		if string(t.Type) == "EOF" {
			eofs = 1
			eofTok = t
			for i := 0; i < 3; i++ { // EOF must be sticky
				if t2 := l.NextToken(); string(t2.Type) == "EOF" && t2.Literal == "" {
					eofs++
				}
			}
			return
		}
		toks = append(toks, t)
	}
	return
}

func showTok(t token.Token) string {
	return fmt.Sprintf("{%s %q line %d byte %d rune %d -> line %d byte %d rune %d}", t.Type, t.Literal, t.LineNumber,
		t.StartCharIndex, t.StartUtf8CharIndex, t.EndLineNumber, t.EndCharIndex, t.EndUtf8CharIndex)
}

func trimRightSpace(s string) string { return strings.TrimRightFunc(s, unicode.IsSpace) }

type checkOpts struct {
	positions bool // check (b) and (c); false for the documented-collapse sub-check
}

// checkLayout runs the lexer on one layout and applies the oracles. It returns
// the observed raw-string literals (for the across-layout comparison) and
// whether the token sequence matched.
func checkLayout(k *h.Case, lo layout, opt checkOpts) (rawLits []string, ok bool) {
	k.Count("evaluations", 1)
	k.Count("layouts", 1)
	for n, v := range lo.counts {
		k.Count(n, v)
	}
	if lo.eofInCmt {
		k.Count("file_ends_inside_comment", 1)
	}
	src := lo.src
	toks, eofs, pan, eofTok := lexAll(src, len(lo.toks)+8)
	k.SetSource(src)
	if pan != nil {
		report(k, "lexer-panic", fmt.Sprintf("lexer panicked on valid UTF-8 input without U+FFFD: %v", pan), map[string]interface{}{"source": src})
		return nil, false
	}
	// (a) the (Type, Literal) sequence
	for i, p := range lo.toks {
		if i >= len(toks) {
			report(k, "seq:short:"+p.class, fmt.Sprintf("token %d: expected (%s, %q) but the lexer reported end of input after %d tokens", i, p.exp.typ, p.exp.lit, len(toks)),
				map[string]interface{}{"source": src})
			return nil, false
		}
		t := toks[i]
		litOK := t.Literal == p.exp.lit
		if p.exp.typ == "RAWSTRING" {
			// trailing white space of a raw string's content is not pinned by the property
			litOK = trimRightSpace(t.Literal) == trimRightSpace(p.exp.lit)
			rawLits = append(rawLits, t.Literal)
		}
		if string(t.Type) != p.exp.typ || !litOK {
			report(k, "seq:"+p.class, fmt.Sprintf("token %d: expected (%s, %q), observed (%s, %q)", i, p.exp.typ, p.exp.lit, t.Type, t.Literal),
				map[string]interface{}{"source": src, "token_index": i, "observed": showTok(t)})
			return nil, false
		}
	}
	if len(toks) > len(lo.toks) {
		t := toks[len(lo.toks)]
		report(k, "seq:extra", fmt.Sprintf("expected end of input after %d tokens, observed extra token %s", len(lo.toks), showTok(t)),
			map[string]interface{}{"source": src})
		return nil, false
	}
	if eofs != 4 {
		report(k, "seq:eof-not-sticky", fmt.Sprintf("after the last token NextToken must keep returning EOF; got EOF %d times out of 4", eofs),
			map[string]interface{}{"source": src})
		return nil, false
	}
	if !opt.positions {
		for _, p := range lo.toks {
			k.Count("tok."+p.class, 1)
		}
		return rawLits, true
	}
	// the EOF token sits just behind the last character of the source (it has no first character of its own; its
	// position is what "unexpected end of file" diagnostics report)
	if eofs > 0 {
		if eofTok.LineNumber != lo.endLine || eofTok.StartCharIndex != lo.endBcol || eofTok.StartUtf8CharIndex != lo.endRcol {
			report(k, "eof-position", fmt.Sprintf("the source ends at line %d, byte column %d, character column %d; the EOF token reports line %d, byte %d, character %d", lo.endLine, lo.endBcol, lo.endRcol, eofTok.LineNumber, eofTok.StartCharIndex, eofTok.StartUtf8CharIndex), map[string]interface{}{"source": lo.src})
		} else {
			k.Count("eof_positions_checked", 1)
		}
	}
	// (b) start positions, (c) end positions
	for i, p := range lo.toks {
		t := toks[i]
		k.Count("tok."+p.class, 1)
		atEOF := p.endOff == len(src)
		nextMB := !atEOF && src[p.endOff] >= 0x80
		prevMB := p.off > 0 && src[p.off-1] >= 0x80
		tokMB := !isASCII(src[p.off:p.endOff])
		if p.off == 0 {
			k.Count("tok_at_bof", 1)
		}
		if atEOF {
			k.Count("tok_at_eof_no_newline", 1)
			k.Count("tok_at_eof_no_newline."+p.class, 1)
		} else if i == len(lo.toks)-1 {
			k.Count("tok_last_before_trailing_layout", 1)
		}
		if nextMB {
			k.Count("tok_directly_before_multibyte", 1)
			k.Count("tok_directly_before_multibyte."+p.class, 1)
		}
		if prevMB {
			k.Count("tok_directly_after_multibyte", 1)
		}
		if p.bcol != p.rcol {
			k.Count("tok_after_multibyte_on_same_line", 1)
			k.Count("tok_after_multibyte_on_same_line."+p.class, 1)
		}
		if tokMB {
			k.Count("tok_multibyte", 1)
		}
		ctx := ""
		switch {
		case atEOF:
			ctx = ":at-eof"
		case nextMB:
			ctx = ":before-multibyte"
		}
		sctx := ""
		if p.bcol != p.rcol {
			sctx = ":after-multibyte"
		}
		det := func() map[string]interface{} {
			return map[string]interface{}{"source": src, "token_index": i, "observed": showTok(t),
				"expected_start": fmt.Sprintf("line %d byte %d rune %d", p.line, p.bcol, p.rcol), "byte_len": p.blen, "rune_len": p.rlen}
		}
		if t.LineNumber != p.line {
			report(k, "start-line:"+p.class, fmt.Sprintf("token %d (%s %q): first character is on line %d, LineNumber=%d", i, p.exp.typ, p.exp.lit, p.line, t.LineNumber), det())
		}
		if t.StartCharIndex != p.bcol {
			report(k, "start-byte:"+p.class+sctx, fmt.Sprintf("token %d (%s %q): first character is at byte column %d, StartCharIndex=%d", i, p.exp.typ, p.exp.lit, p.bcol, t.StartCharIndex), det())
		}
		if t.StartUtf8CharIndex != p.rcol {
			report(k, "start-rune:"+p.class+sctx, fmt.Sprintf("token %d (%s %q): first character is at rune column %d, StartUtf8CharIndex=%d", i, p.exp.typ, p.exp.lit, p.rcol, t.StartUtf8CharIndex), det())
		}
		k.Count("start_positions_checked", 1)
		if !p.checkEnd {
			k.Count("end_not_checked_raw_or_multipart", 1)
			continue
		}
		k.Count("end_positions_checked", 1)
		if t.EndLineNumber != t.LineNumber {
			report(k, "end-line:"+p.class+ctx, fmt.Sprintf("token %d (%s %q): single-line token but EndLineNumber=%d, LineNumber=%d", i, p.exp.typ, p.exp.lit, t.EndLineNumber, t.LineNumber), det())
		}
		if t.EndCharIndex != p.bcol+p.blen {
			report(k, "end-byte:"+p.class+ctx, fmt.Sprintf("token %d (%s %q): start byte column %d + byte length %d = %d, EndCharIndex=%d", i, p.exp.typ, p.exp.lit, p.bcol, p.blen, p.bcol+p.blen, t.EndCharIndex), det())
		}
		if t.EndUtf8CharIndex != p.rcol+p.rlen {
			report(k, "end-rune:"+p.class+ctx, fmt.Sprintf("token %d (%s %q): start rune column %d + rune length %d = %d, EndUtf8CharIndex=%d", i, p.exp.typ, p.exp.lit, p.rcol, p.rlen, p.rcol+p.rlen, t.EndUtf8CharIndex), det())
		}
	}
	return rawLits, true
}

func classSig(lexs []lexeme) string {
	var sb strings.Builder
	for _, lx := range lexs {
		sb.WriteString(lx.class())
		if lx.kind == kStr || lx.kind == kPStr {
			fmt.Fprintf(&sb, "%d", len(lx.parts))
		}
		sb.WriteByte(' ')
	}
	return sb.String()
}

func clip(s string, n int) string {
	if len(s) > n {
		for n > 0 && !utf8.RuneStart(s[n]) {
			n--
		}
		return s[:n] + "…"
	}
	return s
}

// ---------------------------------------------------------------------------
// Sub-check "layouts": random lexeme lists, several random layouts each

func layoutCase(k *h.Case) {
	r := k.R
	n := 1 + r.IntN(3)
	if r.IntN(4) > 0 {
		n = 1 + r.IntN(24)
	}
	lexs := make([]lexeme, 0, n)
	for i := 0; i < n; i++ {
		var prev *lexeme
		if i > 0 {
			prev = &lexs[i-1]
		}
		lexs = append(lexs, genLexeme(r, prev))
	}
	k.Count("lexeme_lists", 1)
	nl := 3 + r.IntN(2)
	var firstRaw []string
	csig := classSig(lexs)
	for j := 0; j < nl; j++ {
		lo := render(r, lexs, genSeps(r, len(lexs)))
		raws, ok := checkLayout(k, lo, checkOpts{positions: true})
		if !ok {
			return
		}
		if j == 0 {
			firstRaw = raws
			k.Sample("layouts", map[string]interface{}{"classes": csig, "source": clip(lo.src, 400), "tokens": len(lo.toks)})
		} else {
			for x := range raws {
				if x < len(firstRaw) && raws[x] != firstRaw[x] {
					report(k, "seq:raw-literal-differs-across-layouts", fmt.Sprintf("raw string literal %q under layout 0 but %q under layout %d", firstRaw[x], raws[x], j),
						map[string]interface{}{"source": lo.src})
				}
			}
		}
		k.Nontrivial("layouts", csig, strings.Join(lo.sepSig, "|"))
	}
}

// ---------------------------------------------------------------------------
// Sub-check "edges": every lexeme of a fixed catalogue x what stands directly
// before it x what stands directly after it (complete enumeration)

func edgeCatalogue() []lexeme {
	var c []lexeme
	for _, s := range ops2 {
		c = append(c, lexeme{kind: kOp, text: s})
	}
	for _, s := range ops1 {
		c = append(c, lexeme{kind: kOp, text: s})
	}
	for _, s := range delims {
		c = append(c, lexeme{kind: kOp, text: s})
	}
	for _, s := range []string{"script", "elif", "TRUE", "false", "do", "moves", "poryswitch"} {
		c = append(c, lexeme{kind: kWord, text: s})
	}
	for _, s := range []string{"a", "_", "Abc_12", "é", "aポ", "Ж_1", "𝒳y", "iff"} {
		c = append(c, lexeme{kind: kWord, text: s})
	}
	for _, s := range []string{"7", "1234", "0", "007", "0x0", "0x1F", "0xabcdef", "-5", "-0", "-120"} {
		c = append(c, lexeme{kind: kNum, text: s})
	}
	c = append(c,
		lexeme{kind: kStr, parts: []string{""}},
		lexeme{kind: kStr, parts: []string{"abc def"}},
		lexeme{kind: kStr, parts: []string{"sée # x // y ポ"}},
		lexeme{kind: kStr, parts: []string{"one\\n", "twó$"}},
		lexeme{kind: kPStr, prefix: "ascii", parts: []string{"plain"}},
		lexeme{kind: kPStr, prefix: "é", parts: []string{"ポ"}},
		lexeme{kind: kRaw, text: "`x`"},
		lexeme{kind: kRaw, text: "`\n\t.byte 0 # é\n`"},
	)
	for _, s := range []string{"@", "&", "|", "/", "-", ";", "→", "€", "😀", "§"} {
		c = append(c, lexeme{kind: kStray, text: s})
	}
	return c
}

type edgeCtx struct {
	name string
	lex  *lexeme // neighbouring lexeme, if any
	sep  []sepEl // separator between the neighbour (or file boundary) and the subject
	far  []sepEl // separator on the far side of the neighbour
}

func lxp(l lexeme) *lexeme { return &l }

var edgePre = []edgeCtx{
	{name: "bof"},
	{name: "space", sep: []sepEl{{"space", " "}}},
	{name: "tab", sep: []sepEl{{"tab", "\t"}}},
	{name: "lf", sep: []sepEl{{"lf", "\n"}}},
	{name: "crlf", sep: []sepEl{{"crlf", "\r\n"}}},
	{name: "hash-cmt", sep: []sepEl{{"hash", "# cmt é \"\n"}}},
	{name: "slash-cmt-crlf", sep: []sepEl{{"slash", "// cmt `\r\n"}, {"space", "  "}}},
	{name: "mb-ident+space", lex: lxp(lexeme{kind: kWord, text: "é_ポ"}), sep: []sepEl{{"space", " "}}},
	{name: "mb-string-glued", lex: lxp(lexeme{kind: kPStr, prefix: "p", parts: []string{"ポケ"}})},
	{name: "mb-stray-glued", lex: lxp(lexeme{kind: kStray, text: "→"})},
	{name: "paren-glued", lex: lxp(lexeme{kind: kOp, text: "("})},
	{name: "eq-glued", lex: lxp(lexeme{kind: kOp, text: "=="})},
	{name: "raw-multiline-glued", lex: lxp(lexeme{kind: kRaw, text: "`a\né`"})},
}

var edgePost = []edgeCtx{
	{name: "eof"},
	{name: "lf-eof", sep: []sepEl{{"lf", "\n"}}},
	{name: "crlf-eof", sep: []sepEl{{"crlf", "\r\n"}}},
	{name: "space-eof", sep: []sepEl{{"space", " "}}},
	{name: "tab-eof", sep: []sepEl{{"tab", "\t"}}},
	{name: "hash-cmt-eof", sep: []sepEl{{"hash-eof", "#c"}}},
	{name: "slash-cmt-eof", sep: []sepEl{{"slash-eof", "//c é"}}},
	{name: "slash-cmt-then-ident", sep: []sepEl{{"slash", "//c\n"}}, lex: lxp(lexeme{kind: kWord, text: "x"})},
	{name: "mb-stray-glued", lex: lxp(lexeme{kind: kStray, text: "→"})},
	{name: "mb4-stray-glued-lf", lex: lxp(lexeme{kind: kStray, text: "😀"}), far: []sepEl{{"lf", "\n"}}},
	{name: "paren-glued", lex: lxp(lexeme{kind: kOp, text: ")"})},
	{name: "assign-glued", lex: lxp(lexeme{kind: kOp, text: "="})},
	{name: "space+mb-ident", sep: []sepEl{{"space", " "}}, lex: lxp(lexeme{kind: kWord, text: "é"})},
	{name: "mb-ident-glued", lex: lxp(lexeme{kind: kWord, text: "ポ1"})},
	{name: "raw-glued", lex: lxp(lexeme{kind: kRaw, text: "`é`"})},
	{name: "pstring-glued", lex: lxp(lexeme{kind: kPStr, prefix: "é", parts: []string{"é"}})},
}

func edgeCase(cat []lexeme) func(k *h.Case) {
	return func(k *h.Case) {
		idx := k.Index
		post := edgePost[idx%len(edgePost)]
		idx /= len(edgePost)
		pre := edgePre[idx%len(edgePre)]
		idx /= len(edgePre)
		subj := cat[idx]
		if pre.lex != nil && (pre.lex.kind == kStr || pre.lex.kind == kPStr) && subj.kind == kStr {
			// a quoted part directly after a string would be a further part of that string
			k.Count("edge_cases_skipped_string_after_string", 1)
			return
		}
		var lexs []lexeme
		var seps [][]sepEl
		if pre.lex != nil {
			lexs = append(lexs, *pre.lex)
			seps = append(seps, pre.far)
		}
		seps = append(seps, pre.sep)
		lexs = append(lexs, subj)
		seps = append(seps, post.sep)
		if post.lex != nil {
			lexs = append(lexs, *post.lex)
			seps = append(seps, post.far)
		}
		lo := render(k.R, lexs, seps)
		if _, ok := checkLayout(k, lo, checkOpts{positions: true}); ok {
			k.Nontrivial("edges", subj.class(), subj.text, len(subj.parts), pre.name, post.name)
			k.Count("edge_cases_accepted", 1)
			if subj.class() == "int-zero" || subj.class() == "illegal-mb" {
				k.Sample("edges", map[string]interface{}{"subject": subj.class(), "pre": pre.name, "post": post.name, "source": lo.src})
			}
		}
	}
}

// ---------------------------------------------------------------------------
// Sub-check "collapse": string literals containing a raw line break followed by
// indentation; only (Type, Literal) with the documented collapse is asserted.

var collapseWords = []string{"multiline", "text", "string", "é", "ポケモン", "x", "#no", "//no", "a b", "{PLAYER}", "\\n", "0", "$"}

func collapseCase(k *h.Case) {
	r := k.R
	n := 1 + r.IntN(6)
	var lexs []lexeme
	have := false
	for i := 0; i < n; i++ {
		var prev *lexeme
		if i > 0 {
			prev = &lexs[i-1]
		}
		if (prev == nil || (prev.kind != kStr && prev.kind != kPStr)) && (r.IntN(3) == 0 || (i == n-1 && !have)) {
			// source text: w0 NL indent w1 [NL indent w2]; intended literal: w0 " " w1 [" " w2]
			segs := 2 + r.IntN(2)
			var srcPart strings.Builder
			var lit []string
			for s := 0; s < segs; s++ {
				wd := h.Pick(r, collapseWords)
				if s > 0 {
					srcPart.WriteString(genNL(r))
					srcPart.WriteString(strings.Repeat(h.Pick(r, []string{" ", "\t", "  "}), r.IntN(4)))
				}
				srcPart.WriteString(wd)
				lit = append(lit, wd)
			}
			// The lexeme's parts hold the source text; the intended literal is patched below.
			lexs = append(lexs, lexeme{kind: kStr, parts: []string{srcPart.String()}, prefix: strings.Join(lit, " ")})
			have = true
			continue
		}
		lexs = append(lexs, genLexeme(r, prev))
	}
	for j := 0; j < 2; j++ {
		lo := render(r, lexs, genSeps(r, len(lexs)))
		for i := range lo.toks {
			lx := lexs[lo.toks[i].lexIdx]
			if lx.kind == kStr && lx.prefix != "" {
				lo.toks[i].exp.lit = lx.prefix
				lo.toks[i].class = "string-with-line-break"
			}
		}
		if _, ok := checkLayout(k, lo, checkOpts{positions: true}); !ok {
			return
		}
		k.Nontrivial("collapse", classSig(lexs), strings.Join(lo.sepSig, "|"))
		if j == 0 {
			k.Sample("collapse", map[string]interface{}{"source": clip(lo.src, 300)})
		}
	}
}

// ---------------------------------------------------------------------------
// Sub-check "programs": fixed valid programs, split into lexemes, laid out
// under two random layouts; the compiled output (no line markers) must agree.

type program struct {
	name     string
	text     string
	switches map[string]string
	font     bool
}

var programs = []program{
	{name: "if-elif-else", text: `
script Main {
	lock
	faceplayer
	if (flag(FLAG_A) && var(VAR_X) == 2) {
		msgbox("Hello\n" "there$", MSGBOX_DEFAULT)
	} elif (!defeated(TRAINER_BOB) || var(VAR_Y) >= 0x10) {
		setvar(VAR_X, 3)
	} elif (var(VAR_Z) != 7 && (flag(FLAG_B) || !flag(FLAG_C))) {
		setvar(VAR_X, -1)
	} else {
		goto(Other)
	}
	release
	end
}
script Other {
	if (var(VAR_Q) <= 4) { msgbox("sée # not a comment // either") }
	return
}`},
	{name: "loops", text: `
script Loops {
	setvar(VAR_I, 0)
	while (var(VAR_I) < 5) {
		addvar(VAR_I, 1)
		if (flag(FLAG_STOP)) { break }
		if (var(VAR_I) == 3) { continue }
		playse(SE_PIN)
	}
	do {
		subvar(VAR_I, 1)
		if (flag(FLAG_SKIP) == TRUE) { continue }
		waitse
	} while (var(VAR_I) > 0 && !flag(FLAG_STOP))
	while (flag(FLAG_OUTER)) {
		do { nop } while (var(VAR_J) >= value(0x100))
	}
	end
}`},
	{name: "switch", text: `
script Sw {
	random(4)
	switch (var(VAR_RESULT)) {
		case 0: msgbox("zero")
		case 1:
		case 2: msgbox("one or two") setvar(VAR_A, 2)
		case 0x10:
			if (flag(FLAG_Q)) { msgbox("big") break }
			msgbox("big, no flag")
		case CONST_THREE: msgbox("three")
		default: msgbox("other")
	}
	release
}`},
	{name: "text", text: `
text(global) T_One { "Héllo # not a comment\n" "second // line\p" "third ポケモン$" }
text(local) T_Two { ascii"plain ascii" }
text T_Three { braille"BRAILLE" }
text T_Four {
	"first"
	"second"
}
script UsesText {
	msgbox(T_One)
	msgbox(ascii"inline", 4)
	msgbox("multi\n" "part\l" "inline$", MSGBOX_NPC)
	message(custom"custom one")
}`},
	{name: "movement", text: `
movement M_Walk { walk_up * 3 face_down walk_left * 2 delay_16 }
movement(global) M_G { walk_right walk_right * 1 }
script Mv {
	lock
	applymovement(2, M_Walk)
	applymovement(OBJ_EVENT_ID_PLAYER, moves(walk_down * 2, face_up))
	applymovement(3, moves(walk_left walk_up * 5 face_down))
	waitmovement(0)
	release
}`},
	{name: "mart", text: `
mart M_Items { ITEM_POTION ITEM_POKE_BALL ITEM_NONE ITEM_IGNORED }
mart(global) M_Items2 { ITEM_LAVA_COOKIE }
mart M_Empty { }
script Shop {
	lock
	message("Welcome to my store.")
	waitmessage
	pokemart(M_Items)
	msgbox("Come again soon.")
	release
}`},
	{name: "mapscripts", text: `
mapscripts Town_MapScripts {
	MAP_SCRIPT_ON_RESUME: Town_OnResume
	MAP_SCRIPT_ON_TRANSITION {
		random(2)
		switch (var(VAR_RESULT)) {
			case 0: setweather(WEATHER_ASH)
			case 1: setweather(WEATHER_RAIN_HEAVY)
		}
	}
	MAP_SCRIPT_ON_FRAME_TABLE [
		VAR_TEMP_0, 0: Town_OnFrame0
		VAR_TEMP_0, 1 {
			lock
			msgbox("This script is inlined.")
			setvar(VAR_TEMP_0, 2)
			release
		}
	]
}
mapscripts Empty_MapScripts {}
script Town_OnResume { end }
script Town_OnFrame0 { end }`},
	{name: "raw-const", text: "\nconst COUNT = 3\nconst BIG = 0x20\nconst SUM = ( COUNT + 1 )\nconst MASK = FLAG_A | FLAG_B\nraw `\nData_Label::\n\t.byte 0, 1 # kept verbatim\n\t.string \"x // y$\"\n`\n" +
		"script UsesConst {\n\tsetvar(VAR_X, COUNT)\n\tif (var(VAR_X) == BIG) { addvar(VAR_X, COUNT + 2) }\n\tsetvar(VAR_Y, SUM)\n\tspecialvar(VAR_RESULT, MASK, 7 8 9, (1 + 0x2))\n}\nraw `\t.align 2`\nscript Tail { end }"},
	{name: "labels-poryswitch", switches: map[string]string{"GAME_VERSION": "RUBY", "LANGUAGE": "GERMAN"}, text: `
script(local) Lbl {
	Again:
	Global_One(global):
	random(3)
	poryswitch(GAME_VERSION) {
		RUBY {
			msgbox("Ruby")
			giveitem(ITEM_RUBY_ORB)
		}
		SAPPHIRE: msgbox("Sapphire")
		_: release
	}
	if (var(VAR_RESULT) > 1) { goto(Again) }
	end
}
text PsText {
	poryswitch(LANGUAGE) {
		GERMAN: "Hallo. Ich spreche Deutsch."
		ENGLISH: "Hello. I speak English."
	}
}
movement PsMove {
	face_player
	poryswitch(GAME_VERSION) {
		RUBY: walk_left * 2
		SAPPHIRE { walk_right * 2 walk_left * 4 }
	}
}`},
	{name: "format", font: true, text: `
text Formatted {
	format("Hello, are you the real-live legendary {PLAYER} that everyone talks about?\pAmazing!\pSo glad to meet you!", "1_latin_rse", 100)
}
script UsesFormat {
	msgbox(format("This is an example of a long line that must be wrapped by the formatter", numLines=3, maxLineLength=100))
}`},
}

// splitProgram cuts a conventionally written program into lexemes. Adjacent
// quoted parts become one multi-part string lexeme.
func splitProgram(text string) ([]lexeme, error) {
	var out []lexeme
	adj := false // previous lexeme is a string and nothing but white space followed it
	i := 0
	readQuoted := func() (string, error) {
		j := strings.IndexByte(text[i+1:], '"')
		if j < 0 {
			return "", fmt.Errorf("unterminated string at %d", i)
		}
		s := text[i+1 : i+1+j]
		i += j + 2
		return s, nil
	}
	for i < len(text) {
		c, sz := utf8.DecodeRuneInString(text[i:])
		switch {
		case c == ' ' || c == '\t' || c == '\n' || c == '\r':
			i += sz
			continue
		case c == '"':
			s, err := readQuoted()
			if err != nil {
				return nil, err
			}
			if adj {
				out[len(out)-1].parts = append(out[len(out)-1].parts, s)
			} else {
				out = append(out, lexeme{kind: kStr, parts: []string{s}})
			}
			adj = true
			continue
		case c == '`':
			j := strings.IndexByte(text[i+1:], '`')
			if j < 0 {
				return nil, fmt.Errorf("unterminated raw at %d", i)
			}
			out = append(out, lexeme{kind: kRaw, text: text[i : i+j+2]})
			i += j + 2
		case isWordRune(c) || (c == '-' && i+1 < len(text) && text[i+1] >= '0' && text[i+1] <= '9'):
			j := i + sz
			for j < len(text) {
				c2, sz2 := utf8.DecodeRuneInString(text[j:])
				if !isWordRune(c2) {
					break
				}
				j += sz2
			}
			word := text[i:j]
			i = j
			if c == '-' || unicode.IsDigit(c) {
				out = append(out, lexeme{kind: kNum, text: word})
			} else if i < len(text) && text[i] == '"' {
				s, err := readQuoted()
				if err != nil {
					return nil, err
				}
				out = append(out, lexeme{kind: kPStr, prefix: word, parts: []string{s}})
				adj = true
				continue
			} else {
				out = append(out, lexeme{kind: kWord, text: word})
			}
		default:
			two := ""
			if i+2 <= len(text) {
				two = text[i : i+2]
			}
			isOp2 := false
			for _, o := range ops2 {
				if o == two {
					isOp2 = true
				}
			}
			if isOp2 {
				out = append(out, lexeme{kind: kOp, text: two})
				i += 2
			} else if strings.ContainsRune("*=<>!()[]{},:", c) {
				out = append(out, lexeme{kind: kOp, text: string(c)})
				i += sz
			} else if c == '#' || c == utf8.RuneError {
				return nil, fmt.Errorf("unexpected character %q at %d", c, i)
			} else {
				out = append(out, lexeme{kind: kStray, text: string(c)})
				i += sz
			}
		}
		adj = false
	}
	return out, nil
}

func programCase(split [][]lexeme) func(k *h.Case) {
	return func(k *h.Case) {
		r := k.R
		pi := k.Index % len(programs)
		opt := (k.Index/len(programs))%2 == 0
		pg := programs[pi]
		lexs := split[pi]
		o := h.Opts{Optimize: opt, LM: false, Switches: pg.switches}
		if pg.font {
			o.FontPath = filepath.Join(h.RepoDir, "font_config.json")
		}
		base := h.Compile(pg.text, o)
		k.Count("evaluations", 1)
		k.Count("compilations", 1)
		k.SetSource(pg.text)
		if !base.OK() {
			k.C.Inconclusive("programs: hand-written program %q is rejected in its conventional layout: %s", pg.name, base.ErrString())
			return
		}
		var sigs []string
		for j := 0; j < 2; j++ {
			lo := render(r, lexs, genSeps(r, len(lexs)))
			for n, v := range lo.counts {
				k.Count(n, v)
			}
			k.Count("layouts", 1)
			k.Count("program_layouts", 1)
			res := h.Compile(lo.src, o)
			k.Count("evaluations", 1)
			k.Count("compilations", 1)
			k.SetSource(lo.src)
			if !res.OK() {
				report(k, "compile:layout-rejected", fmt.Sprintf("program %q (optimize=%v) compiles in its conventional layout but a re-layout of the same lexemes is rejected: %s", pg.name, opt, res.ErrString()),
					map[string]interface{}{"conventional": pg.text, "relayout": lo.src})
				return
			}
			if res.Out != base.Out {
				report(k, "compile:output-differs", fmt.Sprintf("program %q (optimize=%v): compiled output differs between two layouts of the same lexemes", pg.name, opt),
					map[string]interface{}{"conventional": pg.text, "relayout": lo.src, "out_conventional": base.Out, "out_relayout": res.Out})
				return
			}
			sigs = append(sigs, strings.Join(lo.sepSig, "|"))
			if j == 0 && k.Index < len(programs) {
				k.Sample("programs", map[string]interface{}{"program": pg.name, "relayout": clip(lo.src, 500), "output_bytes": len(res.Out)})
			}
		}
		k.Count("program_pairs_equal", 1)
		k.Nontrivial("programs", pg.name, opt, sigs[0], sigs[1])
	}
}

// ---------------------------------------------------------------------------

// Run is the entry point of the check.
// Extra, when set, runs additional sub-checks before the verdict (generated
// whole programs under two layouts, see checks/c19x.go).
var Extra func(ctx *h.Ctx)

func Run(ctx *h.Ctx) int {
	if err := poolsOK(); err != nil {
		ctx.Inconclusive("generator alphabet is wrong: %v", err)
	}
	cat := edgeCatalogue()
	nEdges := len(cat) * len(edgePre) * len(edgePost)
	ctx.RunCases("edges", nEdges, edgeCase(cat))
	ctx.Exhaustive("edges", int64(nEdges), fmt.Sprintf("%d catalogue lexemes x %d contexts directly before x %d contexts directly after (BOF/EOF, LF, CRLF, comments, glued multi-byte neighbours)", len(cat), len(edgePre), len(edgePost)))

	ctx.RunCases("layouts", ctx.N(100000, 3000000), layoutCase)
	ctx.RunCases("collapse", ctx.N(3000, 60000), collapseCase)

	split := make([][]lexeme, len(programs))
	splitOK := true
	for i, pg := range programs {
		ls, err := splitProgram(pg.text)
		if err != nil {
			ctx.Inconclusive("programs: cannot split hand-written program %q: %v", pg.name, err)
			splitOK = false
		}
		split[i] = ls
	}
	if splitOK {
		ctx.RunCases("programs", ctx.N(3000, 30000), programCase(split))
	}

	rule := "lexeme lists over the whole alphabet (operators, delimiters, all keywords, ASCII/multi-byte identifiers, decimal/0/hex/negative numbers, single- and multi-part strings, string-type prefixes, raw strings, ASCII and multi-byte stray characters) rendered under >=3 random layouts each (runs of spaces, tabs, LF, CRLF, '#' and '//' comments, or nothing where two lexemes stay two when glued; leading/trailing runs; file ending inside a comment), plus a complete enumeration lexeme x left context x right context, plus strings with raw line breaks (type/literal only), plus ten hand-written programs compiled under re-layouts. A case is non-trivial when the lexer's (Type, Literal) sequence equals the generator's intended one so that positions were compared; signature = lexeme classes + separator kinds per gap."
	assumptions := []string{
		"position convention as pinned by lexer_test.go: LineNumber 1-based; Start*Index 0-based column of the first character (bytes / runes); End*Index exclusive",
		"end positions are not checked for raw strings and for string literals of several quoted parts (not single-line tokens 'other than raw strings' with a length of their own)",
		"EOF token: only that it comes last and is sticky; its columns are not checked",
		"trailing white space inside a raw string is compared modulo trimming (not pinned by the property), but must be identical across layouts",
		"string literals containing raw line breaks are generated only in sub-check collapse (type/literal with the documented collapse to one space; closing quote never first after the break)",
		"two plain string literals are never adjacent (adjacent quoted parts are one token by definition); U+FFFD and invalid UTF-8 are never generated (property C18)",
		"a number is never glued to a following letter/digit and an identifier never to a following quote (they would not remain the same two lexemes)",
	}
	if Extra != nil {
		Extra(ctx)
	}
	return ctx.Finish(rule, ctx.N(20000, 200000), assumptions)
}
