// Package ref is the reference interpreter: it executes the structured
// source (a poryswitch-free spec tree) with lexical continuations and produces
// the trace of commands, queries and the terminal that the emitted assembly
// must reproduce. It also defines the game-state model shared with the VM.
package ref

import (
	"fmt"
	"hash/fnv"
	"strings"

	"verif.local/pvmon/internal/spec"
)

// State is the game state: an arbitrary function of (epoch, kind, name).
// epoch = number of opaque commands executed so far.
type State interface {
	Flag(epoch int, name string) bool
	Trainer(epoch int, name string) bool
	Var(epoch int, name string) int
}

// HashState draws every value from a hash of (seed, epoch, kind, name).
type HashState struct {
	Seed  uint64
	Cands []int // candidate var values
}

func hs(seed uint64, epoch int, kind byte, name string) uint64 {
	hh := fnv.New64a()
	fmt.Fprintf(hh, "%d|%d|%c|%s", seed, epoch, kind, name)
	v := hh.Sum64()
	v ^= v >> 33
	v *= 0xff51afd7ed558ccd
	v ^= v >> 33
	return v
}

// Flag implements State.
func (s *HashState) Flag(e int, n string) bool { return hs(s.Seed, e, 'f', n)&1 == 1 }

// Trainer implements State.
func (s *HashState) Trainer(e int, n string) bool { return hs(s.Seed, e, 't', n)&1 == 1 }

// Var implements State.
func (s *HashState) Var(e int, n string) int {
	if len(s.Cands) == 0 {
		return int(hs(s.Seed, e, 'v', n) % 3)
	}
	return s.Cands[hs(s.Seed, e, 'v', n)%uint64(len(s.Cands))]
}

// TableState is an explicit, epoch-independent assignment (truth tables).
type TableState struct {
	Flags    map[string]bool
	Trainers map[string]bool
	Vars     map[string]int
}

// Flag implements State.
func (s *TableState) Flag(e int, n string) bool { return s.Flags[n] }

// Trainer implements State.
func (s *TableState) Trainer(e int, n string) bool { return s.Trainers[n] }

// Var implements State.
func (s *TableState) Var(e int, n string) int { return s.Vars[n] }

// Event is one observable step.
type Event struct {
	K    byte   // 'c' command, 'q' query
	Name string // command name / query kind
	Text string // full rendered command line / "operand|value|raw"
}

func (e Event) String() string {
	if e.K == 'c' {
		return "cmd " + e.Text
	}
	return "query " + e.Name + " " + e.Text
}

// Trace is the result of one run.
type Trace struct {
	Events   []Event
	Term     string // return | end | jump-out(L) | silent-loop | truncated | problem:...
	Problems []string
}

// Cmds returns the command names with the terminal appended.
func (t *Trace) Cmds() []string {
	var out []string
	for _, e := range t.Events {
		if e.K == 'c' {
			out = append(out, e.Name)
		}
	}
	return append(out, "=>"+t.Term)
}

// Full returns all events (commands by full text) with the terminal.
func (t *Trace) Full() []string {
	var out []string
	for _, e := range t.Events {
		out = append(out, e.String())
	}
	return append(out, "=>"+t.Term)
}

// MaxCmds bounds the number of command events per run.
const MaxCmds = 64

// Compare evaluates `a op b`.
func Compare(a int, op string, b int) bool {
	switch op {
	case "==":
		return a == b
	case "!=":
		return a != b
	case "<":
		return a < b
	case "<=":
		return a <= b
	case ">":
		return a > b
	case ">=":
		return a >= b
	}
	return false
}

// ---------------------------------------------------------------------------

type frameKind int

const (
	fkRoot frameKind = iota
	fkIf
	fkWhile
	fkInf
	fkDo
	fkCase
)

type frame struct {
	blk    *spec.Block
	kind   frameKind
	parent *frame
	pidx   int       // index of the owning statement in the parent block
	owner  spec.Stmt // the owning statement
}

type pos struct {
	f *frame
	i int
}

// Interp interprets one script body.
type Interp struct {
	root   *frame
	labels map[string]pos
	frames map[*spec.Block]*frame
	// Render gives the expected full text of a command ("" = name only).
	Render func(c *spec.Cmd) string
	// AutoVars is the command config (to find the result var of AutoVar commands).
	AutoVars map[string]spec.AutoVar
}

// New prepares an interpreter for a body.
func New(body *spec.Block, autoVars map[string]spec.AutoVar) *Interp {
	in := &Interp{labels: map[string]pos{}, frames: map[*spec.Block]*frame{}, AutoVars: autoVars}
	in.root = &frame{blk: body, kind: fkRoot}
	in.index(in.root)
	return in
}

func (in *Interp) index(f *frame) {
	in.frames[f.blk] = f
	for i, st := range f.blk.Stmts {
		switch x := st.(type) {
		case *spec.Label:
			if _, dup := in.labels[x.Name]; !dup {
				in.labels[x.Name] = pos{f, i}
			}
		case *spec.If:
			for _, a := range x.Arms {
				in.index(&frame{blk: a.Body, kind: fkIf, parent: f, pidx: i, owner: st})
			}
			if x.Else != nil {
				in.index(&frame{blk: x.Else, kind: fkIf, parent: f, pidx: i, owner: st})
			}
		case *spec.While:
			k := fkWhile
			if x.Cond == nil {
				k = fkInf
			}
			in.index(&frame{blk: x.Body, kind: k, parent: f, pidx: i, owner: st})
		case *spec.DoWhile:
			in.index(&frame{blk: x.Body, kind: fkDo, parent: f, pidx: i, owner: st})
		case *spec.Switch:
			for _, c := range x.Cases {
				in.index(&frame{blk: c.Body, kind: fkCase, parent: f, pidx: i, owner: st})
			}
		}
	}
}

// HasLabel reports whether the body defines the label.
func (in *Interp) HasLabel(n string) bool { _, ok := in.labels[n]; return ok }

type run struct {
	in    *Interp
	st    State
	epoch int
	tr    *Trace
	ncmd  int
}

func (r *run) cmdText(c *spec.Cmd) string {
	if r.in.Render != nil {
		return r.in.Render(c)
	}
	return c.Name
}

// exec records a command event; returns false when the command bound is hit.
func (r *run) exec(c *spec.Cmd) bool {
	r.tr.Events = append(r.tr.Events, Event{K: 'c', Name: c.Name, Text: r.cmdText(c)})
	r.epoch++
	r.ncmd++
	return r.ncmd < MaxCmds
}

// AutoVarName returns the result var of an AutoVar command per the config.
func AutoVarName(c *spec.Cmd, cfg map[string]spec.AutoVar) string {
	av := cfg[c.Name]
	if av.ArgPos >= 0 {
		if av.ArgPos < len(c.Args) {
			return strings.Join(c.Args[av.ArgPos].Toks, " ")
		}
		return "?"
	}
	return av.VarName
}

type stopRun struct{}

func (r *run) leaf(l *spec.Leaf) bool {
	switch l.Kind {
	case spec.LeafFlag, spec.LeafDefeated:
		name := strings.Join(l.Operand, " ")
		var v bool
		if l.Kind == spec.LeafFlag {
			v = r.st.Flag(r.epoch, name)
			r.tr.Events = append(r.tr.Events, Event{K: 'q', Name: "flag", Text: name})
		} else {
			v = r.st.Trainer(r.epoch, name)
			r.tr.Events = append(r.tr.Events, Event{K: 'q', Name: "defeated", Text: name})
		}
		if l.Bang {
			return !v
		}
		if l.Op == "" {
			return v
		}
		want := l.Value[0] == "true" || l.Value[0] == "TRUE"
		if l.Op == "==" {
			return v == want
		}
		return v != want
	default:
		var name string
		if l.Kind == spec.LeafAuto {
			if !r.exec(l.Auto) {
				panic(stopRun{})
			}
			name = AutoVarName(l.Auto, r.in.AutoVars)
		} else {
			name = strings.Join(l.Operand, " ")
		}
		v := r.st.Var(r.epoch, name)
		op, val, raw := l.Op, strings.Join(spec.RawValueToks(l), " "), l.Raw
		if l.Bang {
			op, val, raw = "==", "0", false
		} else if l.Op == "" {
			op, val, raw = "!=", "0", false
		}
		rs := "n"
		if raw {
			rs = "r"
		}
		r.tr.Events = append(r.tr.Events, Event{K: 'q', Name: "var", Text: name + "|" + val + "|" + rs})
		return Compare(v, op, spec.ValueInt(val))
	}
}

func (r *run) cond(c spec.Cond) bool {
	switch x := c.(type) {
	case *spec.And:
		for _, k := range x.Xs {
			if !r.cond(k) {
				return false
			}
		}
		return true
	case *spec.Or:
		for _, k := range x.Xs {
			if r.cond(k) {
				return true
			}
		}
		return false
	case *spec.Not:
		return !r.cond(x.X)
	case *spec.Paren:
		return r.cond(x.X)
	case *spec.Leaf:
		return r.leaf(x)
	}
	return false
}

// Run executes the body under the given state.
func (in *Interp) Run(st State) (tr *Trace) {
	tr = &Trace{}
	r := &run{in: in, st: st, tr: tr}
	defer func() {
		if e := recover(); e != nil {
			if _, ok := e.(stopRun); ok {
				tr.Term = "truncated"
				return
			}
			panic(e)
		}
	}()
	type vkey struct {
		f     *frame
		i     int
		epoch int
	}
	visited := map[vkey]bool{}
	p := pos{in.root, 0}
	for steps := 0; ; steps++ {
		if steps > 100000 {
			tr.Term = "problem:ref-step-bound"
			return
		}
		k := vkey{p.f, p.i, r.epoch}
		if visited[k] {
			tr.Term = "silent-loop"
			return
		}
		visited[k] = true
		f := p.f
		if p.i >= len(f.blk.Stmts) {
			// end of block: lexical continuation
			switch f.kind {
			case fkRoot:
				tr.Term = "return"
				return
			case fkIf, fkCase:
				p = pos{f.parent, f.pidx + 1}
			case fkWhile:
				p = pos{f.parent, f.pidx} // re-evaluate the while statement
			case fkInf:
				p = pos{f, 0}
				// a body without commands loops silently; the visited set catches it
				if len(f.blk.Stmts) == 0 {
					tr.Term = "silent-loop"
					return
				}
			case fkDo:
				if r.cond(f.owner.(*spec.DoWhile).Cond) {
					p = pos{f, 0}
				} else {
					p = pos{f.parent, f.pidx + 1}
				}
			}
			continue
		}
		switch x := f.blk.Stmts[p.i].(type) {
		case *spec.Label:
			p.i++
		case *spec.CmdStmt:
			c := x.Cmd
			switch {
			case c.Name == "end" && len(c.Args) == 0:
				tr.Term = "end"
				return
			case c.Name == "return" && len(c.Args) == 0:
				tr.Term = "return"
				return
			case (c.Name == "goto_if_set" || c.Name == "goto_if_unset") && len(c.Args) == 2:
				// author-written conditional jump: the game's semantics
				fl := strings.Join(c.Args[0].Toks, " ")
				l := strings.Join(c.Args[1].Toks, " ")
				v := r.st.Flag(r.epoch, fl)
				tr.Events = append(tr.Events, Event{K: 'q', Name: "flag", Text: fl})
				if v == (c.Name == "goto_if_set") {
					if t, ok := in.labels[l]; ok {
						p = pos{t.f, t.i + 1}
					} else {
						tr.Term = "jump-out(" + l + ")"
						return
					}
				} else {
					p.i++
				}
			case c.Name == "goto" && len(c.Args) == 1:
				l := strings.Join(c.Args[0].Toks, " ")
				if t, ok := in.labels[l]; ok {
					p = pos{t.f, t.i + 1}
				} else {
					tr.Term = "jump-out(" + l + ")"
					return
				}
			default:
				if !r.exec(c) {
					tr.Term = "truncated"
					return
				}
				p.i++
			}
		case *spec.If:
			taken := false
			for _, a := range x.Arms {
				if r.cond(a.Cond) {
					p = pos{in.frames[a.Body], 0}
					taken = true
					break
				}
			}
			if !taken {
				if x.Else != nil {
					p = pos{in.frames[x.Else], 0}
				} else {
					p.i++
				}
			}
		case *spec.While:
			if x.Cond == nil || r.cond(x.Cond) {
				p = pos{in.frames[x.Body], 0}
			} else {
				p.i++
			}
		case *spec.DoWhile:
			p = pos{in.frames[x.Body], 0}
		case *spec.Break:
			g := f
			for g != nil && g.kind != fkWhile && g.kind != fkInf && g.kind != fkDo && g.kind != fkCase {
				g = g.parent
			}
			if g == nil {
				tr.Term = "problem:break-outside"
				return
			}
			p = pos{g.parent, g.pidx + 1}
		case *spec.Continue:
			g := f
			for g != nil && g.kind != fkWhile && g.kind != fkInf && g.kind != fkDo {
				g = g.parent
			}
			if g == nil {
				tr.Term = "problem:continue-outside"
				return
			}
			switch g.kind {
			case fkWhile:
				p = pos{g.parent, g.pidx}
			default:
				p = pos{g, 0}
			}
		case *spec.Switch:
			var name string
			if x.Auto != nil {
				if !r.exec(x.Auto) {
					tr.Term = "truncated"
					return
				}
				name = AutoVarName(x.Auto, in.AutoVars)
			} else {
				name = strings.Join(x.Operand, " ")
			}
			v := r.st.Var(r.epoch, name)
			tr.Events = append(tr.Events, Event{K: 'q', Name: "switch", Text: name})
			sel := -1
			for i, c := range x.Cases {
				if !c.Default && spec.ValueInt(strings.Join(c.Value, " ")) == v {
					sel = i
					break
				}
			}
			if sel < 0 {
				for i, c := range x.Cases {
					if c.Default {
						sel = i
					}
				}
			}
			if sel < 0 {
				p.i++
				break
			}
			// a body-less case shares the next non-empty body; trailing ones do nothing
			body := -1
			for j := sel; j < len(x.Cases); j++ {
				if len(x.Cases[j].Body.Stmts) > 0 {
					body = j
					break
				}
			}
			if body < 0 {
				p.i++
			} else {
				p = pos{in.frames[x.Cases[body].Body], 0}
			}
		default:
			tr.Term = fmt.Sprintf("problem:unknown-stmt %T", x)
			return
		}
	}
}

// OverrideState pins some vars (epoch-independent) on top of a base state.
type OverrideState struct {
	Base State
	Vars map[string]int
}

// Flag implements State.
func (s *OverrideState) Flag(e int, n string) bool { return s.Base.Flag(e, n) }

// Trainer implements State.
func (s *OverrideState) Trainer(e int, n string) bool { return s.Base.Trainer(e, n) }

// Var implements State.
func (s *OverrideState) Var(e int, n string) int {
	if v, ok := s.Vars[n]; ok {
		return v
	}
	return s.Base.Var(e, n)
}

// DecState draws every first-time query (epoch, kind, name) from a decision
// vector (missing positions are 0); used to enumerate all decision sequences
// of small programs depth-first. Frozen copies answer 0 for unseen keys.
type DecState struct {
	Dec    []int
	Arity  []int // arity of each decision actually taken (filled during the run)
	memo   map[string]int
	Frozen bool
	Unseen int // queries of a frozen state that the recording run never made
}

// NewDecState makes a recording state for the given decision vector.
func NewDecState(dec []int) *DecState { return &DecState{Dec: dec, memo: map[string]int{}} }

func (s *DecState) next(e int, kind byte, name string, arity int) int {
	k := fmt.Sprintf("%d|%c|%s", e, kind, name)
	if v, ok := s.memo[k]; ok {
		return v
	}
	if s.Frozen {
		s.Unseen++
		return 0
	}
	d := 0
	if len(s.Arity) < len(s.Dec) {
		d = s.Dec[len(s.Arity)] % arity
	}
	s.Arity = append(s.Arity, arity)
	s.memo[k] = d
	return d
}

// Flag implements State.
func (s *DecState) Flag(e int, n string) bool { return s.next(e, 'f', n, 2) == 1 }

// Trainer implements State.
func (s *DecState) Trainer(e int, n string) bool { return s.next(e, 't', n, 2) == 1 }

// Var implements State (values 0..2).
func (s *DecState) Var(e int, n string) int { return s.next(e, 'v', n, 3) }

// Freeze returns a read-only view sharing the recorded answers.
func (s *DecState) Freeze() *DecState { return &DecState{memo: s.memo, Frozen: true} }

// NextDecisions advances a decision vector like an odometer over the arities
// seen in the last run, limited to maxLen positions; ok=false when exhausted.
func NextDecisions(dec []int, arity []int, maxLen int) ([]int, bool) {
	n := len(arity)
	if n > maxLen {
		n = maxLen
	}
	cur := make([]int, n)
	copy(cur, dec)
	for i := n - 1; i >= 0; i-- {
		if cur[i]+1 < arity[i] {
			cur[i]++
			return cur[:i+1], true
		}
	}
	return nil, false
}
