// Package asm parses the assembly text emitted by poryscript and executes it
// on a small virtual machine that gives the branching commands the game's
// semantics. It shares the state model and trace types with package ref.
package asm

import (
	"fmt"
	"regexp"
	"strconv"
	"strings"

	"verif.local/pvmon/internal/ref"
	"verif.local/pvmon/internal/spec"
)

// Line kinds.
const (
	KBlank = iota
	KMarker
	KLabel
	KInstr
	KOther // unindented non-label text (raw content)
)

// Line is one parsed output line.
type Line struct {
	N      int // 0-based line index
	Kind   int
	Text   string // original text
	Label  string // KLabel
	Global bool   // KLabel: `::`
	Op     string // KInstr
	Args   string // KInstr: everything after the op, trimmed
	MLine  int    // KMarker
	MFile  string // KMarker
}

// File is a parsed output.
type File struct {
	Lines  []Line
	Labels map[string][]int // label -> line indices where defined
}

var markerRe = regexp.MustCompile(`^# (-?\d+) "(.*)"$`)
var labelRe = regexp.MustCompile(`^([^\s:"]+)(::?)$`)

// Parse parses emitted text.
func Parse(out string) *File {
	f := &File{Labels: map[string][]int{}}
	raw := strings.Split(out, "\n")
	if len(raw) > 0 && raw[len(raw)-1] == "" {
		raw = raw[:len(raw)-1]
	}
	for i, t := range raw {
		ln := Line{N: i, Text: t}
		switch {
		case strings.TrimSpace(t) == "":
			ln.Kind = KBlank
		case markerRe.MatchString(t):
			m := markerRe.FindStringSubmatch(t)
			ln.Kind = KMarker
			ln.MLine, _ = strconv.Atoi(m[1])
			ln.MFile = m[2]
		case t[0] != '\t' && t[0] != ' ' && labelRe.MatchString(t):
			m := labelRe.FindStringSubmatch(t)
			ln.Kind = KLabel
			ln.Label = m[1]
			ln.Global = m[2] == "::"
			f.Labels[ln.Label] = append(f.Labels[ln.Label], i)
		case t[0] == '\t' || t[0] == ' ':
			ln.Kind = KInstr
			s := strings.TrimSpace(t)
			if j := strings.IndexAny(s, " \t"); j >= 0 {
				ln.Op, ln.Args = s[:j], strings.TrimSpace(s[j+1:])
			} else {
				ln.Op = s
			}
		default:
			ln.Kind = KOther
		}
		f.Lines = append(f.Lines, ln)
	}
	return f
}

// IsData reports whether an instruction line is an assembler directive.
func (l *Line) IsData() bool { return l.Kind == KInstr && strings.HasPrefix(l.Op, ".") }

// SplitLast splits "a, b, c" at the last comma -> ("a, b", "c").
func SplitLast(s string) (string, string) {
	j := strings.LastIndex(s, ",")
	if j < 0 {
		return "", strings.TrimSpace(s)
	}
	return strings.TrimSpace(s[:j]), strings.TrimSpace(s[j+1:])
}

// SplitFirst splits "a, b, c" at the first comma -> ("a", "b, c").
func SplitFirst(s string) (string, string) {
	j := strings.Index(s, ",")
	if j < 0 {
		return strings.TrimSpace(s), ""
	}
	return strings.TrimSpace(s[:j]), strings.TrimSpace(s[j+1:])
}

// Section describes the extent of one script in the file.
type Section struct {
	Entry      string
	Start, End int // line indices [Start, End)
}

// SectionOf finds the section that starts at label entry and extends to the
// next label contained in boundary (names of other top-level items and
// hoisted data), to a directive line or to the end of file.
func (f *File) SectionOf(entry string, boundary map[string]bool) (Section, error) {
	defs := f.Labels[entry]
	if len(defs) == 0 {
		return Section{}, fmt.Errorf("entry label %q is not defined in the output", entry)
	}
	if len(defs) > 1 {
		return Section{}, fmt.Errorf("entry label %q is defined %d times", entry, len(defs))
	}
	s := Section{Entry: entry, Start: defs[0], End: len(f.Lines)}
	for i := defs[0] + 1; i < len(f.Lines); i++ {
		l := &f.Lines[i]
		if l.Kind == KLabel && boundary[l.Label] && l.Label != entry {
			s.End = i
			// a directive directly before the label (`.align 2` of a mart) belongs to that item
			if p := f.PrevCode(i); p > s.Start && f.Lines[p].IsData() {
				s.End = p
			}
			break
		}
		if l.Kind == KOther {
			s.End = i
			break
		}
	}
	return s, nil
}

// ---------------------------------------------------------------------------
// VM

// VM executes one section.
type VM struct {
	F    *File
	Sec  Section
	Hits map[int]bool // executed instruction lines (coverage), optional
	// UserTargets: labels the author wrote as targets of hand-written
	// goto_if_set/goto_if_unset commands; like a plain goto they may leave the script.
	UserTargets map[string]bool
}

type condReg struct {
	kind byte // 0 unset, 'c' compare, 't' trainer flag
	a, b int
	t    bool
}

var cmpOps = map[string]string{"goto_if_eq": "==", "goto_if_ne": "!=", "goto_if_lt": "<", "goto_if_le": "<=", "goto_if_gt": ">", "goto_if_ge": ">="}

// Run executes from the section's entry label under the state.
func (vm *VM) Run(st ref.State) (tr *ref.Trace) {
	tr = &ref.Trace{}
	f := vm.F
	epoch, ncmd := 0, 0
	var cr condReg
	swSet := false
	swVal := 0
	type vkey struct {
		pc, epoch int
		cr        condReg
		sw        int
		swSet     bool
	}
	visited := map[vkey]bool{}
	problem := func(format string, a ...interface{}) {
		msg := fmt.Sprintf(format, a...)
		tr.Problems = append(tr.Problems, msg)
		tr.Term = "problem:" + msg
	}
	// resolve a jump target inside the section
	target := func(lbl string) (int, bool) {
		for _, d := range f.Labels[lbl] {
			if d >= vm.Sec.Start && d < vm.Sec.End {
				return d, true
			}
		}
		return 0, false
	}
	pc := vm.Sec.Start
	for steps := 0; ; steps++ {
		if steps > 200000 {
			problem("vm step bound exceeded")
			return
		}
		if pc >= vm.Sec.End {
			if pc >= len(f.Lines) {
				problem("run-off: execution fell off the end of the file")
			} else {
				problem("run-off: execution fell through into %q (line %d)", f.Lines[pc].Text, pc+1)
			}
			return
		}
		l := &f.Lines[pc]
		if l.Kind != KInstr {
			pc++
			continue
		}
		k := vkey{pc, epoch, cr, swVal, swSet}
		if visited[k] {
			tr.Term = "silent-loop"
			return
		}
		visited[k] = true
		if vm.Hits != nil {
			vm.Hits[pc] = true
		}
		if l.IsData() {
			problem("run-off: execution reached data directive %q (line %d)", l.Text, pc+1)
			return
		}
		jump := func(lbl string, generated bool) bool {
			t, ok := target(lbl)
			if !ok {
				if generated && !vm.UserTargets[lbl] {
					if len(f.Labels[lbl]) == 0 {
						problem("conditional jump/case at line %d targets undefined label %q", pc+1, lbl)
					} else {
						problem("conditional jump/case at line %d targets label %q outside its script", pc+1, lbl)
					}
				} else {
					tr.Term = "jump-out(" + lbl + ")"
				}
				return false
			}
			pc = t
			return true
		}
		switch l.Op {
		case "return":
			if l.Args == "" {
				tr.Term = "return"
				return
			}
		case "end":
			if l.Args == "" {
				tr.Term = "end"
				return
			}
		}
		switch l.Op {
		case "goto":
			if !jump(l.Args, false) {
				return
			}
			continue
		case "goto_if_set", "goto_if_unset":
			fl, lbl := SplitLast(l.Args)
			v := st.Flag(epoch, fl)
			cr = condReg{} // goto_if_set/unset is checkflag + goto_if: the earlier comparison result is gone
			tr.Events = append(tr.Events, ref.Event{K: 'q', Name: "flag", Text: fl})
			if v == (l.Op == "goto_if_set") {
				if !jump(lbl, true) {
					return
				}
				continue
			}
			pc++
			continue
		case "compare", "compare_var_to_value":
			a, b := SplitFirst(l.Args)
			rs := "n"
			if l.Op == "compare_var_to_value" {
				rs = "r"
			}
			cr = condReg{kind: 'c', a: st.Var(epoch, a), b: spec.ValueInt(b)}
			tr.Events = append(tr.Events, ref.Event{K: 'q', Name: "var", Text: a + "|" + b + "|" + rs})
			pc++
			continue
		case "checktrainerflag":
			cr = condReg{kind: 't', t: st.Trainer(epoch, l.Args)}
			tr.Events = append(tr.Events, ref.Event{K: 'q', Name: "defeated", Text: l.Args})
			pc++
			continue
		case "goto_if_eq", "goto_if_ne", "goto_if_lt", "goto_if_le", "goto_if_gt", "goto_if_ge":
			if cr.kind != 'c' {
				problem("line %d: %s reads a condition that no compare set (register kind %q)", pc+1, l.Op, string(cr.kind))
				return
			}
			if ref.Compare(cr.a, cmpOps[l.Op], cr.b) {
				if !jump(l.Args, true) {
					return
				}
				continue
			}
			pc++
			continue
		case "goto_if":
			n, lbl := SplitFirst(l.Args)
			if cr.kind != 't' {
				problem("line %d: goto_if reads a trainer-flag result that no checktrainerflag set", pc+1)
				return
			}
			want := n == "1"
			if n != "0" && n != "1" {
				problem("line %d: goto_if with unexpected condition %q", pc+1, n)
				return
			}
			if cr.t == want {
				if !jump(lbl, true) {
					return
				}
				continue
			}
			pc++
			continue
		case "switch":
			swVal = st.Var(epoch, l.Args)
			swSet = true
			tr.Events = append(tr.Events, ref.Event{K: 'q', Name: "switch", Text: l.Args})
			pc++
			continue
		case "case":
			v, lbl := SplitLast(l.Args)
			if !swSet {
				problem("line %d: case without a preceding switch", pc+1)
				return
			}
			cr = condReg{} // case is compare + goto_if_eq
			if spec.ValueInt(v) == swVal {
				if !jump(lbl, true) {
					return
				}
				continue
			}
			pc++
			continue
		}
		// opaque command: event, epoch++, clobbers the condition register
		text := l.Op
		if l.Args != "" {
			text += " " + l.Args
		}
		tr.Events = append(tr.Events, ref.Event{K: 'c', Name: l.Op, Text: text})
		epoch++
		ncmd++
		cr = condReg{}
		if ncmd >= ref.MaxCmds {
			tr.Term = "truncated"
			return
		}
		pc++
	}
}

// ---------------------------------------------------------------------------
// Static analysis helpers

// Ref is a label reference found in the output.
type Ref struct {
	Line  int
	Label string
	Kind  string // goto | cond | case | map_script | map_script_2
}

// Refs lists the label references of generated control transfers and
// map-script tables.
func (f *File) Refs() []Ref {
	var out []Ref
	for i := range f.Lines {
		l := &f.Lines[i]
		if l.Kind != KInstr {
			continue
		}
		switch l.Op {
		case "goto":
			out = append(out, Ref{i, l.Args, "goto"})
		case "goto_if_set", "goto_if_unset", "goto_if":
			_, lbl := SplitLast(l.Args)
			out = append(out, Ref{i, lbl, "cond"})
		case "goto_if_eq", "goto_if_ne", "goto_if_lt", "goto_if_le", "goto_if_gt", "goto_if_ge":
			out = append(out, Ref{i, l.Args, "cond"})
		case "case":
			_, lbl := SplitLast(l.Args)
			out = append(out, Ref{i, lbl, "case"})
		case "map_script":
			_, lbl := SplitLast(l.Args)
			out = append(out, Ref{i, lbl, "map_script"})
		case "map_script_2":
			_, lbl := SplitLast(l.Args)
			out = append(out, Ref{i, lbl, "map_script_2"})
		}
	}
	return out
}

// NextCode returns the index of the next line after i that is neither blank
// nor a marker (or len).
func (f *File) NextCode(i int) int {
	for j := i + 1; j < len(f.Lines); j++ {
		if f.Lines[j].Kind != KBlank && f.Lines[j].Kind != KMarker {
			return j
		}
	}
	return len(f.Lines)
}

// PrevCode returns the index of the previous line before i that is neither
// blank nor a marker (or -1).
func (f *File) PrevCode(i int) int {
	for j := i - 1; j >= 0; j-- {
		if f.Lines[j].Kind != KBlank && f.Lines[j].Kind != KMarker {
			return j
		}
	}
	return -1
}

// ReachProblems explores every control path of a section from the given start
// lines, taking both outcomes of every conditional jump (so the result holds
// for every game state), and reports where execution can leave the section
// other than by return/end/a jump to a label outside it.
func (f *File) ReachProblems(sec Section, starts []int, userTargets map[string]bool) (problems []string, reached int) {
	seen := map[int]bool{}
	work := append([]int{}, starts...)
	target := func(lbl string) (int, bool) {
		for _, d := range f.Labels[lbl] {
			if d >= sec.Start && d < sec.End {
				return d, true
			}
		}
		return 0, false
	}
	for len(work) > 0 {
		pc := work[len(work)-1]
		work = work[:len(work)-1]
		for {
			if pc >= sec.End {
				if pc >= len(f.Lines) {
					problems = append(problems, "a path falls off the end of the file")
				} else {
					problems = append(problems, fmt.Sprintf("a path falls through into %q (line %d)", f.Lines[pc].Text, pc+1))
				}
				break
			}
			if seen[pc] {
				break
			}
			seen[pc] = true
			l := &f.Lines[pc]
			if l.Kind != KInstr {
				pc++
				continue
			}
			reached++
			if l.IsData() {
				problems = append(problems, fmt.Sprintf("a path reaches data directive %q (line %d)", l.Text, pc+1))
				break
			}
			if (l.Op == "return" || l.Op == "end") && l.Args == "" {
				break
			}
			var lbl string
			cond := false
			switch l.Op {
			case "goto":
				lbl = l.Args
			case "goto_if_set", "goto_if_unset", "goto_if", "case":
				_, lbl = SplitLast(l.Args)
				cond = true
			case "goto_if_eq", "goto_if_ne", "goto_if_lt", "goto_if_le", "goto_if_gt", "goto_if_ge":
				lbl = l.Args
				cond = true
			}
			if lbl == "" {
				pc++
				continue
			}
			if t, ok := target(lbl); ok {
				work = append(work, t)
			} else if cond && !userTargets[lbl] {
				problems = append(problems, fmt.Sprintf("line %d: %s targets %q, which is not a label of this script", pc+1, l.Op, lbl))
			}
			if !cond {
				break
			}
			pc++
		}
	}
	return problems, reached
}
