// Package c07 monitors property C07: format() only turns spaces into line
// breaks, and every line fits the box.
//
// The workload generator keeps every text as a token list (words made of
// runes and {CONTROL CODE} groups, explicit break codes, runs of spaces) and
// the oracle judges the formatted result against that list and against its own
// table-lookup width rule. The function under test is never consulted by the
// oracle.
//
// Oracles (DESIGN.md section 4, C07):
//
//	F1 conservation  words and explicit break codes come out in order,
//	                 byte-identical; the only additions are a single space or a
//	                 line-end code between two words.
//	F2 discipline    with a line counter that '\p' resets, every inserted break
//	                 and every '\N' is '\n' while counter < numLines-1 and '\l'
//	                 afterwards.
//	F3 width         every line with >= 2 words is <= maxLineLength wide,
//	                 including cursorOverlapWidth on prompt lines in the NARROW
//	                 reading (line ends in '\p', or it ends in '\l' as the last
//	                 line of the box and further words follow).
//	F4 minimality    at every inserted break the moved word would not have
//	                 fit, granting the overlap under the WIDE reading (anything
//	                 follows the word and the line is the last of the box or
//	                 is followed by '\p' or an explicit '\l').
//
// F3 uses the narrowest and F4 the widest reasonable reading of "lines where
// the continue-prompt is shown", so an implementation anywhere in between is
// accepted.
package c07

import (
	"encoding/json"
	"fmt"
	"math/rand/v2"
	"os"
	"path/filepath"
	"runtime"
	"sort"
	"strings"
	"time"
	"unicode/utf8"

	"github.com/huderlem/poryscript/parser"
	"verif.local/pvmon/internal/h"
)

// ---------------------------------------------------------------------------
// Token model (generator side)

const (
	tWord = iota
	tBreak
	tSpace
)

type piece struct {
	key  string // one rune as a string, or a whole {...} group
	code bool
}

type token struct {
	kind   int
	s      string  // exact bytes written into the text
	pieces []piece // words only
}

func wordTok(ps []piece) token {
	var sb strings.Builder
	for _, p := range ps {
		sb.WriteString(p.key)
	}
	return token{kind: tWord, s: sb.String(), pieces: ps}
}

// mkWord builds a word token from hand-written text (self-check vectors only):
// a {...} group is one control-code piece, every other rune is a piece.
func mkWord(s string) token {
	var ps []piece
	for len(s) > 0 {
		if s[0] == '{' {
			if j := strings.IndexByte(s, '}'); j > 0 {
				ps = append(ps, piece{key: s[:j+1], code: true})
				s = s[j+1:]
				continue
			}
		}
		_, n := utf8.DecodeRuneInString(s)
		ps = append(ps, piece{key: s[:n]})
		s = s[n:]
	}
	return wordTok(ps)
}

func brk(code string) token { return token{kind: tBreak, s: code} }
func spc(n int) token       { return token{kind: tSpace, s: strings.Repeat(" ", n)} }

func render(toks []token) string {
	var sb strings.Builder
	for _, t := range toks {
		sb.WriteString(t.s)
	}
	return sb.String()
}

func describe(toks []token) []string {
	var out []string
	for _, t := range toks {
		switch t.kind {
		case tWord:
			out = append(out, "W:"+t.s)
		case tBreak:
			out = append(out, "B:"+t.s)
		default:
			out = append(out, fmt.Sprintf("S:%d", len(t.s)))
		}
	}
	return out
}

// ---------------------------------------------------------------------------
// Font model (oracle side): plain table lookup.

type fontModel struct {
	kind   string // "random" | "real" | "TEST"
	id     string
	test   bool
	widths map[string]int
	// config-level defaults, used by the compiled driver only
	maxLen, numLines, overlap int
	hasNumLines               bool
}

func (f *fontModel) lookup(key string, code bool) int {
	if f.test {
		if code {
			return 100
		}
		return 10
	}
	if w, ok := f.widths[key]; ok {
		return w
	}
	if w, ok := f.widths["default"]; ok {
		return w
	}
	return 0
}

func (f *fontModel) wordWidth(t token) int {
	w := 0
	for _, p := range t.pieces {
		w += f.lookup(p.key, p.code)
	}
	return w
}

func (f *fontModel) spaceWidth() int { return f.lookup(" ", false) }

// ---------------------------------------------------------------------------
// The oracle

type params struct{ max, overlap, numLines int }

type obs struct {
	inserted, autoN, paragraphs, explN, explL     int
	overlongSingle, exact, promptLines, promptRes int
	lines, multiWordLines                         int
	f4checks, f4wideOnly                          int
	words                                         int
	bottomExplN                                   int
}

type finding struct{ key, msg string }

type lineRec struct {
	words    []int // indices into the expected token stream
	counter  int
	term     string // observed break code ending the line ("" for the last line)
	inserted bool   // the break was inserted between two words
	end      int    // index (expected stream) of the last token belonging to the line
}

func breakAt(out string, pos int) string {
	if pos+2 <= len(out) && out[pos] == '\\' {
		switch out[pos+1] {
		case 'n', 'l', 'p':
			return out[pos : pos+2]
		}
	}
	return ""
}

func clip(s string, pos int) string {
	if pos > len(s) {
		pos = len(s)
	}
	r := s[pos:]
	if len(r) > 40 {
		r = r[:40] + "..."
	}
	return fmt.Sprintf("%q", r)
}

// judge decides F1-F4 for one formatted result. out is the value returned by
// FormatText (or reconstructed from the .string lines). It returns the first
// finding, or nil.
func judge(toks []token, out string, f *fontModel, p params, o *obs) *finding {
	// expected stream: words and explicit breaks in order
	var E []token
	for _, t := range toks {
		if t.kind != tSpace {
			E = append(E, t)
		}
	}
	want := func(counter int) string {
		if counter < p.numLines-1 {
			return `\n`
		}
		return `\l`
	}
	var lines []lineRec
	cur := lineRec{}
	counter := 0
	pos := 0
	closeLine := func(code string, inserted bool, end int) {
		cur.term, cur.inserted, cur.end, cur.counter = code, inserted, end, counter
		lines = append(lines, cur)
		cur = lineRec{}
		if code == `\p` {
			counter = 0
		} else {
			counter++
		}
		// the real newline that separates .string lines may follow a break code
		if pos < len(out) && out[pos] == '\n' {
			pos++
		}
	}
	for i, e := range E {
		if e.kind == tWord {
			o.words++
			if i > 0 && E[i-1].kind == tWord {
				// separator between two words: one space, or an inserted line break
				if pos < len(out) && out[pos] == ' ' {
					pos++
				} else if code := breakAt(out, pos); code != "" {
					if code == `\p` {
						return &finding{"F2-inserted-paragraph", fmt.Sprintf("F2: a paragraph break '\\p' was inserted between words %q and %q (only '\\n'/'\\l' may be inserted)", E[i-1].s, e.s)}
					}
					if code != want(counter) {
						return &finding{"F2-inserted-break-kind", fmt.Sprintf("F2: inserted break after word %q is %s but line counter=%d, numLines=%d demands %s", E[i-1].s, code, counter, p.numLines, want(counter))}
					}
					pos += 2
					o.inserted++
					closeLine(code, true, i-1)
				} else {
					return &finding{"F1-separator", fmt.Sprintf("F1: after word %q expected a space or an inserted line break before word %q, observed %s", E[i-1].s, e.s, clip(out, pos))}
				}
			}
			if !strings.HasPrefix(out[pos:], e.s) {
				return &finding{"F1-word", fmt.Sprintf("F1: expected word #%d %q next, observed %s (word lost, altered, split or something added)", i, e.s, clip(out, pos))}
			}
			pos += len(e.s)
			cur.words = append(cur.words, i)
			continue
		}
		// explicit break code
		code := breakAt(out, pos)
		if code == "" {
			return &finding{"F1-break", fmt.Sprintf("F1: expected explicit break %s (token #%d) next, observed %s", e.s, i, clip(out, pos))}
		}
		if e.s == `\N` {
			o.autoN++
			if code != want(counter) {
				return &finding{"F2-auto-break-kind", fmt.Sprintf("F2: '\\N' (token #%d) resolved to %s but line counter=%d, numLines=%d demands %s", i, code, counter, p.numLines, want(counter))}
			}
		} else {
			if code != e.s {
				return &finding{"F1-break-changed", fmt.Sprintf("F1: explicit break %s (token #%d) came out as %s", e.s, i, code)}
			}
			switch e.s {
			case `\p`:
				o.paragraphs++
			case `\n`:
				o.explN++
			default:
				o.explL++
			}
		}
		pos += 2
		closeLine(code, false, i)
	}
	if pos != len(out) {
		return &finding{"F1-trailing", fmt.Sprintf("F1: all %d words/breaks consumed but output continues with %s", len(E), clip(out, pos))}
	}
	if len(cur.words) > 0 {
		cur.counter, cur.end = counter, len(E)-1
		lines = append(lines, cur)
	}
	// last word index, to know whether words follow a line
	lastWord := -1
	for i := len(E) - 1; i >= 0; i-- {
		if E[i].kind == tWord {
			lastWord = i
			break
		}
	}
	sp := f.spaceWidth()
	width := func(ws []int) int {
		w := 0
		for j, wi := range ws {
			if j > 0 {
				w += sp
			}
			w += f.wordWidth(E[wi])
		}
		return w
	}
	for _, ln := range lines {
		o.lines++
		if len(ln.words) == 0 {
			continue
		}
		w := width(ln.words)
		// narrow reading: the prompt is certainly shown when the line ends in \p, or
		// when it ends in \l as the last line of the box with further words to come.
		// (A line ended by an explicit \n at the bottom of the box shows no prompt in
		// the game; an explicit \l higher up is not counted by the line-counter
		// reading: neither is demanded.)
		narrow := ln.term == `\p` || (ln.term == `\l` && ln.counter >= p.numLines-1 && lastWord > ln.end)
		if !narrow && ln.term == `\n` && ln.counter >= p.numLines-1 && lastWord > ln.end && len(ln.words) > 1 {
			o.bottomExplN++
		}
		if narrow {
			o.promptLines++
		}
		if len(ln.words) == 1 {
			if w > p.max {
				o.overlongSingle++
			}
		} else {
			o.multiWordLines++
			eff := w
			if narrow {
				eff += p.overlap
				if p.overlap > 0 {
					o.promptRes++
				}
			}
			if eff > p.max {
				key, extra := "F3-width", ""
				if w <= p.max {
					key = "F3-width-prompt"
					extra = fmt.Sprintf(" + cursorOverlapWidth %d (prompt line: terminator %q, line counter %d, numLines %d)", p.overlap, ln.term, ln.counter, p.numLines)
				}
				return &finding{key, fmt.Sprintf("F3: line %q (%d words) is %d px wide%s > maxLineLength %d", lineText(E, ln.words), len(ln.words), w, extra, p.max)}
			}
			if eff == p.max {
				o.exact++
			}
		}
		if ln.inserted {
			// F4: the word that was moved to the next line must not have fit here.
			nw := ln.end + 1 // by construction of the parse this is a word
			o.f4checks++
			hyp := w + sp + f.wordWidth(E[nw])
			wide := false
			if nw+1 < len(E) {
				nx := E[nw+1]
				wide = ln.counter >= p.numLines-1 || (nx.kind == tBreak && (nx.s == `\p` || nx.s == `\l`))
			}
			if wide && p.overlap > 0 && hyp <= p.max {
				o.f4wideOnly++
			}
			if wide {
				hyp += p.overlap
			}
			if hyp <= p.max {
				return &finding{"F4-moved-though-fits", fmt.Sprintf("F4: word %q was moved to a new line although it fits: line %q is %d px, + space %d + word %d%s = %d <= maxLineLength %d", E[nw].s, lineText(E, ln.words), w, sp, f.wordWidth(E[nw]), map[bool]string{true: fmt.Sprintf(" + overlap %d", p.overlap), false: ""}[wide], hyp, p.max)}
			}
		}
	}
	return nil
}

func lineText(E []token, ws []int) string {
	var parts []string
	for _, i := range ws {
		parts = append(parts, E[i].s)
	}
	return strings.Join(parts, " ")
}

// ---------------------------------------------------------------------------
// Generators

var asciiPool = []rune("abcdefghijklmnopqrstuvwxyzABCDEFGHIJKLMNOPQRSTUVWXYZ0123456789.,!?'-:;()/&+*=<>#%@~^_|[]}}")
var multiPool = []rune("éèêàçñüöäßŒœÀÉ♂♀…“”‘’あいうカタ中文字—·¿¡😀🎮")
var codePool = []string{"{PLAYER}", "{RIVAL}", "{STR_VAR_1}", "{COLOR BLUE}", "{COLOR DARK_GRAY}", "{PAUSE 20}", "{ CLEAR_TO 10 }", "{}", "{PKMN}", "{A}", "{あ}", "{PLAY ER  2}", "{UNKNOWN_CODE}"}
var breakCodes = []string{`\n`, `\n`, `\l`, `\l`, `\p`, `\p`, `\p`, `\N`, `\N`, `\N`}

// alphabet is what a text is drawn from.
type alphabet struct {
	runes []string
	codes []string
}

func randAlphabet(r *rand.Rand) alphabet {
	var a alphabet
	n := 3 + r.IntN(24)
	for i := 0; i < n; i++ {
		if h.Chance(r, 0.25) {
			a.runes = append(a.runes, string(h.Pick(r, multiPool)))
		} else {
			a.runes = append(a.runes, string(h.Pick(r, asciiPool)))
		}
	}
	nc := r.IntN(5)
	for i := 0; i < nc; i++ {
		a.codes = append(a.codes, h.Pick(r, codePool))
	}
	return a
}

// randWidths gives a random width table over (part of) the alphabet.
func randWidths(r *rand.Rand, a alphabet) map[string]int {
	w := map[string]int{}
	small := func(max int) int {
		if h.Chance(r, 0.1) {
			return 0
		}
		return r.IntN(max + 1)
	}
	for _, s := range a.runes {
		if h.Chance(r, 0.75) {
			w[s] = small(14)
		}
	}
	for _, c := range a.codes {
		if h.Chance(r, 0.6) {
			w[c] = small(120)
		}
	}
	if h.Chance(r, 0.8) {
		w[" "] = small(8)
	}
	if h.Chance(r, 0.6) {
		w["default"] = small(12)
	}
	return w
}

func genWord(r *rand.Rand, a alphabet) token {
	n := 1 + r.IntN(8)
	if h.Chance(r, 0.05) {
		n = 9 + r.IntN(12)
	}
	var ps []piece
	for i := 0; i < n; i++ {
		if len(a.codes) > 0 && h.Chance(r, 0.12) {
			ps = append(ps, piece{key: h.Pick(r, a.codes), code: true})
		} else {
			ps = append(ps, piece{key: h.Pick(r, a.runes)})
		}
	}
	return wordTok(ps)
}

func genBreaks(r *rand.Rand, toks []token) []token {
	n := 1
	if h.Chance(r, 0.12) {
		n = 2 + r.IntN(2)
	}
	for i := 0; i < n; i++ {
		if i > 0 && h.Chance(r, 0.4) {
			toks = append(toks, spc(1+r.IntN(3)))
		}
		toks = append(toks, brk(h.Pick(r, breakCodes)))
	}
	return toks
}

// genText builds a token list. Two words are always separated by at least one
// space or break token.
func genText(r *rand.Rand, a alphabet) []token {
	nw := 0
	switch x := r.IntN(20); {
	case x == 0:
		nw = r.IntN(2)
	case x < 14:
		nw = 2 + r.IntN(10)
	default:
		nw = 8 + r.IntN(20)
	}
	pBreak := h.Pick(r, []float64{0, 0.05, 0.15, 0.3, 0.6})
	var toks []token
	if h.Chance(r, 0.15) {
		toks = append(toks, spc(1+r.IntN(3)))
	}
	if h.Chance(r, 0.06) {
		toks = genBreaks(r, toks)
		if h.Chance(r, 0.4) {
			toks = append(toks, spc(1+r.IntN(3)))
		}
	}
	for i := 0; i < nw; i++ {
		toks = append(toks, genWord(r, a))
		if i == nw-1 {
			break
		}
		if h.Chance(r, pBreak) {
			if h.Chance(r, 0.4) {
				toks = append(toks, spc(1+r.IntN(3)))
			}
			toks = genBreaks(r, toks)
			if h.Chance(r, 0.4) {
				toks = append(toks, spc(1+r.IntN(3)))
			}
		} else {
			n := 1
			if h.Chance(r, 0.2) {
				n = 2 + r.IntN(2)
			}
			toks = append(toks, spc(n))
		}
	}
	if h.Chance(r, 0.1) {
		if h.Chance(r, 0.4) {
			toks = append(toks, spc(1+r.IntN(3)))
		}
		toks = genBreaks(r, toks)
	}
	if h.Chance(r, 0.15) {
		toks = append(toks, spc(1+r.IntN(3)))
	}
	return toks
}

// pickMax chooses maxLineLength so that boundaries are hit often: the exact
// width of some run of consecutive words, give or take one pixel.
func pickMax(r *rand.Rand, toks []token, f *fontModel, overlap int) int {
	var ww []int
	maxW, sum := 0, 0
	for _, t := range toks {
		if t.kind == tWord {
			w := f.wordWidth(t)
			ww = append(ww, w)
			sum += w
			if w > maxW {
				maxW = w
			}
		}
	}
	mode := r.IntN(10)
	switch {
	case len(ww) == 0 || mode < 2:
		return 1 + r.IntN(300)
	case mode == 2:
		return 1 + r.IntN(maxW+2)
	case mode == 3:
		return sum + len(ww)*f.spaceWidth() + 1 + r.IntN(40)
	}
	i := r.IntN(len(ww))
	span := 2 + r.IntN(5)
	if h.Chance(r, 0.15) {
		span = 1
	}
	w := 0
	for j := i; j < len(ww) && j < i+span; j++ {
		if j > i {
			w += f.spaceWidth()
		}
		w += ww[j]
	}
	w += h.Pick(r, []int{-1, 0, 0, 0, 1})
	if h.Chance(r, 0.4) {
		w += overlap
	}
	if w < 1 {
		w = 1
	}
	return w
}

func pickOverlap(r *rand.Rand) int {
	switch x := r.IntN(10); {
	case x < 3:
		return 0
	case x < 9:
		return 1 + r.IntN(30)
	default:
		return 31 + r.IntN(90)
	}
}

func pickNumLines(r *rand.Rand) int {
	if h.Chance(r, 0.08) {
		return 5 + r.IntN(3)
	}
	return 1 + r.IntN(4)
}

// real font table -> alphabet
func alphabetOf(widths map[string]int, r *rand.Rand) alphabet {
	keys := make([]string, 0, len(widths))
	for k := range widths {
		keys = append(keys, k)
	}
	sort.Strings(keys)
	var a alphabet
	var runes, codes []string
	for _, k := range keys {
		if strings.HasPrefix(k, "{") && strings.HasSuffix(k, "}") && !strings.ContainsAny(k[1:len(k)-1], "{}\\\"$\n") {
			codes = append(codes, k)
			continue
		}
		if utf8.RuneCountInString(k) == 1 && !strings.ContainsAny(k, " {}\\\"$\n\r") && k != string(utf8.RuneError) {
			runes = append(runes, k)
		}
	}
	n := 10 + r.IntN(40)
	for i := 0; i < n && len(runes) > 0; i++ {
		a.runes = append(a.runes, h.Pick(r, runes))
	}
	// a few runes the table does not know
	for i := 0; i < 2; i++ {
		if h.Chance(r, 0.5) {
			a.runes = append(a.runes, h.Pick(r, []string{"あ", "中", "😀", "~", "^", "|", "}"}))
		}
	}
	nc := r.IntN(4)
	for i := 0; i < nc && len(codes) > 0; i++ {
		a.codes = append(a.codes, h.Pick(r, codes))
	}
	if h.Chance(r, 0.3) {
		a.codes = append(a.codes, h.Pick(r, []string{"{COLOR BLUE}", "{PAUSE 20}", "{UNKNOWN_CODE}", "{}"}))
	}
	if len(a.runes) == 0 {
		a.runes = []string{"a"}
	}
	return a
}

// ---------------------------------------------------------------------------
// Reporting helpers

func countObs(k *h.Case, o *obs) {
	k.Count("words_seen", int64(o.words))
	k.Count("inserted_breaks_seen", int64(o.inserted))
	k.Count("auto_N_seen", int64(o.autoN))
	k.Count("paragraph_p_seen", int64(o.paragraphs))
	k.Count("explicit_n_seen", int64(o.explN))
	k.Count("explicit_l_seen", int64(o.explL))
	k.Count("overlong_single_word_lines", int64(o.overlongSingle))
	k.Count("lines_exactly_at_limit", int64(o.exact))
	k.Count("prompt_lines_seen", int64(o.promptLines))
	k.Count("prompt_lines_overlap_applied", int64(o.promptRes))
	k.Count("lines_seen", int64(o.lines))
	k.Count("multi_word_lines_width_checked", int64(o.multiWordLines))
	k.Count("f4_minimality_checks", int64(o.f4checks))
	k.Count("f4_fit_only_thanks_to_wide_overlap", int64(o.f4wideOnly))
	k.Count("bottom_lines_ended_by_explicit_n_not_demanded", int64(o.bottomExplN))
}

func bucket(n int) int {
	switch {
	case n <= 1:
		return n
	case n <= 3:
		return 2
	case n <= 8:
		return 3
	default:
		return 4
	}
}

func shape(toks []token) string {
	var sb strings.Builder
	nw := 0
	for _, t := range toks {
		switch t.kind {
		case tWord:
			nw++
		case tBreak:
			sb.WriteString(fmt.Sprintf("%d%s", bucket(nw), t.s))
			nw = 0
		}
	}
	sb.WriteString(fmt.Sprintf("%d", bucket(nw)))
	s := sb.String()
	if len(s) > 40 {
		s = s[:40]
	}
	return s
}

func nontrivial(k *h.Case, driver string, toks []token, f *fontModel, p params, o *obs, route string) {
	if o.words < 2 || (o.inserted == 0 && o.autoN == 0 && o.paragraphs == 0 && o.explN == 0 && o.explL == 0) {
		return
	}
	k.Count("nontrivial_cases", 1)
	k.Nontrivial(driver, f.kind, p.numLines, p.overlap > 0, shape(toks), bucket(o.inserted), o.promptRes > 0, o.exact > 0, o.overlongSingle > 0, route)
}

// ---------------------------------------------------------------------------
// Self-check of the oracle against vectors of repo/parser/formattext_test.go

type vector struct {
	toks     []token
	p        params
	expected string
}

func selfVectors() (good []vector, bad []vector) {
	W := mkWord
	s1 := spc(1)
	fooMus := []token{W("Foo"), s1, W("{MUS}"), s1, W("baz")}
	first := []token{W("First"), brk(`\n`), W("Second"), s1, W("Third"), s1, W("Fourth")}
	first2 := append(append([]token{}, first...), s1, W("Second"), s1, W("Third"), s1, W("Fourth"))
	apple := []token{W("Apple"), s1, W("Banana"), brk(`\p`), W("Orange")}
	hello := []token{W("Hello."), brk(`\N`), W("I"), s1, W("am"), brk(`\N`), W("writing"), brk(`\p`), W("a"), s1, W("longer"), s1, brk(`\N`), W("“test.”")}
	helloL := []token{W("Hello."), brk(`\N`), W("I"), s1, W("am"), brk(`\N`), W("writing"), brk(`\l`), W("a"), s1, W("longer"), s1, brk(`\N`), W("“test.”")}
	spaced := []token{spc(3), W("Foo"), spc(4), W("bar"), spc(10), W("baz"), spc(2), W("baz2")}
	multi := []token{W("ßŒœ"), s1, W("♂Üあ"), spc(3)}
	good = []vector{
		{fooMus, params{140, 0, 2}, "Foo {MUS}\\n\nbaz"},
		{fooMus, params{139, 0, 2}, "Foo\\n\n{MUS}\\l\nbaz"},
		{multi, params{40, 0, 2}, "ßŒœ\\n\n♂Üあ"},
		{spaced, params{40, 0, 2}, "Foo\\n\nbar\\l\nbaz\\l\nbaz2"},
		{first, params{190, 1, 2}, "First\\n\nSecond Third Fourth"},
		{first2, params{190, 0, 2}, "First\\n\nSecond Third Fourth\\l\nSecond Third Fourth"},
		{first2, params{190, 1, 2}, "First\\n\nSecond Third\\l\nFourth Second\\l\nThird Fourth"},
		{apple, params{130, 10, 2}, "Apple Banana\\p\nOrange"},
		{apple, params{130, 11, 2}, "Apple\\n\nBanana\\p\nOrange"},
		{hello, params{100, 0, 3}, "Hello.\\n\nI am\\n\nwriting\\p\na longer\\n\n“test.”"},
		{hello, params{100, 0, 1}, "Hello.\\l\nI am\\l\nwriting\\p\na longer\\l\n“test.”"},
		{helloL, params{100, 0, 2}, "Hello.\\n\nI am\\l\nwriting\\l\na longer\\l\n“test.”"},
	}
	bad = []vector{
		{fooMus, params{140, 0, 2}, "Foo\\n\n{MUS} baz"},                                     // F4: {MUS} fits on line 1
		{fooMus, params{139, 0, 2}, "Foo {MUS}\\n\nbaz"},                                     // F3: 140 > 139
		{fooMus, params{139, 0, 2}, "Foo\\n\n{MUS}\\n\nbaz"},                                 // F2: second break must be \l
		{fooMus, params{139, 0, 2}, "Foo\\n\nbaz"},                                           // F1: word lost
		{apple, params{130, 11, 2}, "Apple Banana\\p\nOrange"},                               // F3 prompt: 120+11 > 130
		{first2, params{190, 1, 2}, "First\\n\nSecond Third Fourth\\l\nSecond Third Fourth"}, // F3 prompt on last box line
		{hello, params{100, 0, 3}, "Hello.\\n\nI am\\l\nwriting\\p\na longer\\n\n“test.”"},   // F2: \N at counter 1 of 3
		{apple, params{130, 10, 2}, "Apple Banana\\n\nOrange"},                               // F1: \p changed
	}
	return
}

func selfCheck(ctx *h.Ctx) {
	f := &fontModel{kind: "TEST", id: "TEST", test: true}
	good, bad := selfVectors()
	for i, v := range good {
		var o obs
		if fd := judge(v.toks, v.expected, f, v.p, &o); fd != nil {
			ctx.Inconclusive("oracle self-check: oracle rejects upstream test vector %d (%q -> %q): %s", i, render(v.toks), v.expected, fd.msg)
		}
		ctx.Count("selfcheck_vectors_accepted", 1)
	}
	for i, v := range bad {
		var o obs
		if fd := judge(v.toks, v.expected, f, v.p, &o); fd == nil {
			ctx.Inconclusive("oracle self-check: oracle accepts a deliberately wrong output %d (%q -> %q)", i, render(v.toks), v.expected)
		}
		ctx.Count("selfcheck_wrong_outputs_rejected", 1)
	}
}

// ---------------------------------------------------------------------------
// Driver (a): FormatText called directly

type realFonts struct {
	fc     parser.FontConfig
	ids    []string
	ok     bool
	widths map[string]map[string]int // per font id, decoded by the harness
	meta   map[string][3]int         // maxLineLength, numLines, cursorOverlapWidth, decoded by the harness
}

func callFormat(fc *parser.FontConfig, text string, p params, fontID string) (out string, err error, pan interface{}, stack string) {
	defer func() {
		if r := recover(); r != nil {
			pan = r
			buf := make([]byte, 4096)
			stack = string(buf[:runtime.Stack(buf, false)])
		}
	}()
	out, err = fc.FormatText(text, p.max, p.overlap, fontID, p.numLines)
	return
}

func directCase(k *h.Case, rf *realFonts) {
	r := k.R
	var f *fontModel
	var fc *parser.FontConfig
	var a alphabet
	switch x := r.IntN(10); {
	case x < 6: // random table
		a = randAlphabet(r)
		id := h.Pick(r, []string{"f", "1_latin_x", "small font", "大"})
		f = &fontModel{kind: "random", id: id, widths: randWidths(r, a)}
		cfg := parser.FontConfig{DefaultFontID: "other", Fonts: map[string]parser.Fonts{
			id:      {Widths: copyWidths(f.widths), MaxLineLength: 1 + r.IntN(300), NumLines: r.IntN(5), CursorOverlapWidth: r.IntN(20)},
			"other": {Widths: randWidths(r, a), MaxLineLength: 1 + r.IntN(300)},
		}}
		fc = &cfg
		if _, ok := f.widths["default"]; ok {
			k.Count("font_random_with_default", 1)
		} else {
			k.Count("font_random_without_default", 1)
		}
	case x < 8 && rf.ok: // the repository's font_config.json
		id := h.Pick(r, rf.ids)
		f = &fontModel{kind: "real", id: id, widths: rf.widths[id]}
		// every case hands the compiler its own FontConfig with its own copies of the tables; the oracle reads the
		// tables the harness decoded from font_config.json itself
		own := parser.FontConfig{DefaultFontID: rf.fc.DefaultFontID, Fonts: map[string]parser.Fonts{}}
		for fid, fnt := range rf.fc.Fonts {
			fnt.Widths = copyWidths(rf.widths[fid])
			own.Fonts[fid] = fnt
		}
		fc = &own
		a = alphabetOf(f.widths, r)
	default: // built-in TEST font, with an empty or an unrelated config
		a = randAlphabet(r)
		f = &fontModel{kind: "TEST", id: "TEST", test: true}
		cfg := parser.FontConfig{}
		if h.Chance(r, 0.5) {
			cfg = parser.FontConfig{DefaultFontID: "x", Fonts: map[string]parser.Fonts{"x": {Widths: randWidths(r, a)}}}
		}
		fc = &cfg
	}
	toks := genText(r, a)
	text := render(toks)
	p := params{overlap: pickOverlap(r), numLines: pickNumLines(r)}
	p.max = pickMax(r, toks, f, p.overlap)
	k.SetSource(text)
	// history: the same FontConfig value first formats the same words with another
	// font of the config; the judged call must not be influenced by it
	if h.Chance(r, 0.3) {
		var others []string
		for id := range fc.Fonts {
			if id != f.id {
				others = append(others, id)
			}
		}
		sort.Strings(others)
		if len(others) > 0 {
			callFormat(fc, text, p, h.Pick(r, others))
			k.Count("direct_calls_after_other_font_history", 1)
		}
	}
	out, err, pan, stack := callFormat(fc, text, p, f.id)
	k.Count("evaluations", 1)
	k.Count("texts_direct", 1)
	k.Count("font_kind_"+f.kind, 1)
	details := map[string]interface{}{"driver": "direct", "text": text, "tokens": describe(toks), "font": f.kind + ":" + f.id,
		"maxLineLength": p.max, "cursorOverlapWidth": p.overlap, "numLines": p.numLines, "output": out}
	if f.kind == "random" {
		details["widths"] = f.widths
	}
	if pan != nil {
		details["stack"] = stack
		k.Violation("format-panic", fmt.Sprintf("FormatText panicked on a well-formed text: %v", pan), details)
		return
	}
	if err != nil {
		k.Violation("format-error", fmt.Sprintf("FormatText returned an error for a valid font id %q: %v", f.id, err), details)
		return
	}
	var o obs
	if fd := judge(toks, out, f, p, &o); fd != nil {
		k.Violation(fd.key, fmt.Sprintf("%s\n text=%q font=%s maxLineLength=%d cursorOverlapWidth=%d numLines=%d\n output=%q", fd.msg, text, f.kind+":"+f.id, p.max, p.overlap, p.numLines, out), details)
		return
	}
	countObs(k, &o)
	nontrivial(k, "direct", toks, f, p, &o, "")
	if k.Index < 400 {
		if o.inserted > 0 && o.promptRes > 0 {
			k.Sample("direct-"+f.kind, map[string]interface{}{"text": text, "maxLineLength": p.max, "cursorOverlapWidth": p.overlap, "numLines": p.numLines, "output": out})
		}
	}
}

// ---------------------------------------------------------------------------
// Driver (b): format() in a compiled program

var fontIDPool = []string{"fA", "small", "big_font", "1_latin_x", "font2"}

type namedArg struct{ name, val string }

func intLit(r *rand.Rand, v int) string {
	if h.Chance(r, 0.05) {
		return fmt.Sprintf("0x%X", v)
	}
	return fmt.Sprintf("%d", v)
}

// renderSource writes the text as one or more adjacent string literals. A new
// literal may start at any boundary between two tokens (one of which is always
// a space run or a break code): poryscript joins the parts with a separator
// that format() treats like a space, so the word list is unchanged.
func renderSource(r *rand.Rand, toks []token, multi bool) (string, int) {
	var sb strings.Builder
	parts := 1
	sb.WriteByte('"')
	for i, t := range toks {
		if multi && i > 0 && h.Chance(r, 0.2) {
			sb.WriteByte('"')
			sb.WriteString(h.Pick(r, []string{" ", "\n        ", "\t", "\n"}))
			sb.WriteByte('"')
			parts++
		}
		sb.WriteString(t.s)
	}
	sb.WriteByte('"')
	return sb.String(), parts
}

func compiledCase(k *h.Case, rf *realFonts, workDir string) {
	r := k.R
	useReal := rf.ok && h.Chance(r, 0.2)
	var fonts []*fontModel
	var a alphabet
	fontPath := ""
	if useReal {
		for _, id := range rf.ids {
			mt := rf.meta[id]
			fonts = append(fonts, &fontModel{kind: "real", id: id, widths: rf.widths[id], maxLen: mt[0], numLines: mt[1], hasNumLines: mt[1] > 0, overlap: mt[2]})
		}
		a = alphabetOf(fonts[r.IntN(len(fonts))].widths, r)
		fontPath = filepath.Join(h.RepoDir, "font_config.json")
	} else {
		a = randAlphabet(r)
		ids := append([]string{}, fontIDPool...)
		r.Shuffle(len(ids), func(i, j int) { ids[i], ids[j] = ids[j], ids[i] })
		n := 1 + r.IntN(3)
		for i := 0; i < n; i++ {
			f := &fontModel{kind: "random", id: ids[i], widths: randWidths(r, a), maxLen: 1 + r.IntN(300), overlap: 0}
			if h.Chance(r, 0.7) {
				f.numLines, f.hasNumLines = 1+r.IntN(4), true
			}
			if h.Chance(r, 0.6) {
				f.overlap = r.IntN(25)
			}
			fonts = append(fonts, f)
		}
	}
	// the font the text is meant to be formatted with
	target := fonts[r.IntN(len(fonts))]
	if h.Chance(r, 0.1) {
		target = &fontModel{kind: "TEST", id: "TEST", test: true}
	}
	toks := genText(r, a)

	// routes
	fontRoute := h.Pick(r, []string{"pos", "pos", "named", "optsFontID", "cfgDefault"})
	if target.test {
		fontRoute = h.Pick(r, []string{"pos", "named"})
	}
	lenRoute := h.Pick(r, []string{"pos", "pos", "named", "optsMaxLen", "cfg"})
	if target.test && lenRoute == "cfg" {
		lenRoute = "named"
	}
	if useReal && lenRoute == "cfg" && h.Chance(r, 0.5) {
		lenRoute = "pos"
	}
	nlRoute := h.Pick(r, []string{"named", "cfg"})
	ovRoute := h.Pick(r, []string{"named", "cfg"})

	var p params
	// numLines
	if nlRoute == "named" {
		p.numLines = pickNumLines(r)
	} else if target.hasNumLines {
		p.numLines = target.numLines
	} else {
		p.numLines = 2
		nlRoute = "cfg-absent-2"
	}
	// cursorOverlapWidth
	if ovRoute == "named" {
		p.overlap = 1 + r.IntN(40)
	} else {
		p.overlap = target.overlap
	}
	// maxLineLength
	if lenRoute == "cfg" {
		if !useReal && !target.test {
			target.maxLen = pickMax(r, toks, target, p.overlap)
		}
		p.max = target.maxLen
	} else {
		p.max = pickMax(r, toks, target, p.overlap)
	}

	opts := h.Opts{}
	defaultFontID := fonts[r.IntN(len(fonts))].id
	switch fontRoute {
	case "optsFontID":
		opts.FontID = target.id
	case "cfgDefault":
		defaultFontID = target.id
	default:
		if h.Chance(r, 0.3) {
			opts.FontID = fonts[r.IntN(len(fonts))].id // a default that the explicit font id must override
		}
	}
	if useReal && fontRoute == "cfgDefault" {
		if target.id != rf.fc.DefaultFontID {
			fontRoute = "optsFontID"
			opts.FontID = target.id
		}
	}
	if lenRoute == "optsMaxLen" {
		opts.MaxLen = p.max
	} else if lenRoute != "cfg" && h.Chance(r, 0.3) {
		opts.MaxLen = 1 + r.IntN(300) // a default that the explicit length must override
	}

	// argument list
	var args []string
	fontLit := `"` + target.id + `"`
	posFont, posLen := fontRoute == "pos", lenRoute == "pos"
	order := ""
	switch {
	case posFont && posLen:
		if h.Chance(r, 0.5) {
			args = append(args, fontLit, intLit(r, p.max))
			order = "font,len"
		} else {
			args = append(args, intLit(r, p.max), fontLit)
			order = "len,font"
		}
	case posFont:
		args = append(args, fontLit)
		order = "font"
	case posLen:
		args = append(args, intLit(r, p.max))
		order = "len"
	}
	var named []namedArg
	if fontRoute == "named" {
		named = append(named, namedArg{"fontId", fontLit})
	}
	if lenRoute == "named" {
		named = append(named, namedArg{"maxLineLength", intLit(r, p.max)})
	}
	if nlRoute == "named" {
		named = append(named, namedArg{"numLines", intLit(r, p.numLines)})
	}
	if ovRoute == "named" {
		named = append(named, namedArg{"cursorOverlapWidth", intLit(r, p.overlap)})
	}
	r.Shuffle(len(named), func(i, j int) { named[i], named[j] = named[j], named[i] })
	for _, n := range named {
		eq := h.Pick(r, []string{"=", " = ", "= "})
		args = append(args, n.name+eq+n.val)
	}
	lit, parts := renderSource(r, toks, h.Chance(r, 0.25))
	// string type prefix: changes the directive and the terminator, never the layout
	strType := ""
	if h.Chance(r, 0.3) {
		strType = h.Pick(r, []string{"ascii", "braille", "custom"})
	}
	call := "format(" + strType + lit
	for _, x := range args {
		call += h.Pick(r, []string{", ", ",", " , "}) + x
	}
	if len(named) > 0 && h.Chance(r, 0.15) {
		call += h.Pick(r, []string{",", " , "}) // trailing comma after a named parameter
	}
	call += ")"
	host := h.Pick(r, []string{"msgbox", "msgbox", "msgbox", "text", "text", "text", "text-poryswitch", "autovar-condition"})
	inline := host == "msgbox" || host == "autovar-condition"
	var src string
	switch host {
	case "msgbox":
		src = "script S {\n    msgbox(" + call + ")\n}\n"
	case "text":
		src = "text T {\n    " + call + "\n}\n"
	case "text-poryswitch":
		// the selected case holds the call; the other case holds a differently parameterised one
		other := "format(\"zz zz zz zz zz zz zz zz\", 17)"
		opts.Switches = map[string]string{"LANG": "EN"}
		switch r.IntN(3) {
		case 0:
			src = "text T {\n  poryswitch(LANG) {\n    EN: " + call + "\n    _: " + other + "\n  }\n}\n"
		case 1:
			src = "text T {\n  poryswitch(LANG) {\n    DE { " + other + " }\n    EN { " + call + " }\n  }\n}\n"
		default:
			opts.Switches["LANG"] = "FR"
			src = "text T {\n  poryswitch(LANG) {\n    EN: " + other + "\n    _ { " + call + " }\n  }\n}\n"
		}
	default:
		opts.Cfg = parser.CommandConfig{AutoVarCommands: map[string]parser.AutoVarCommand{"checkitem": {VarName: "VAR_RESULT"}}}
		src = "script S {\n    if (checkitem(" + call + ") == 1) {\n        lock\n    }\n}\n"
	}
	k.SetSource(src)

	// font config file
	if !useReal {
		fm := map[string]interface{}{}
		for _, f := range fonts {
			e := map[string]interface{}{"widths": f.widths, "maxLineLength": f.maxLen}
			if f.hasNumLines {
				e["numLines"] = f.numLines
			}
			if f.overlap != 0 || h.Chance(r, 0.5) {
				e["cursorOverlapWidth"] = f.overlap
			}
			fm[f.id] = e
		}
		cfg := map[string]interface{}{"defaultFontId": defaultFontID, "fonts": fm}
		if h.Chance(r, 0.2) {
			// an annotated config: keys the compiler does not know (a comment, a version, a per-font description)
			// next to the documented ones; the fonts are the same fonts
			cfg["_comment"] = "widths measured from the game's font sheet"
			cfg["version"] = 2
			for _, e := range fm {
				e.(map[string]interface{})["description"] = "annotated font"
			}
			k.Count("annotated_font_configs", 1)
		}
		b, err := json.Marshal(cfg)
		if err != nil {
			k.C.Inconclusive("cannot marshal font config: %v", err)
			return
		}
		fontPath = filepath.Join(workDir, fmt.Sprintf("fc_%d_%s_%d_%d.json", os.Getpid(), k.Sub, k.Index, k.C.Seed))
		if err := os.WriteFile(fontPath, b, 0o644); err != nil {
			k.C.Inconclusive("cannot write font config %s: %v", fontPath, err)
			return
		}
		defer os.Remove(fontPath)
	}
	opts.FontPath = fontPath
	res := h.Compile(src, opts)
	k.Count("evaluations", 1)
	k.Count("texts_compiled", 1)
	route := fmt.Sprintf("font=%s len=%s numLines=%s overlap=%s pos=%s", fontRoute, lenRoute, nlRoute, ovRoute, order)
	details := map[string]interface{}{"driver": "compiled", "source": src, "tokens": describe(toks), "font": target.kind + ":" + target.id,
		"maxLineLength": p.max, "cursorOverlapWidth": p.overlap, "numLines": p.numLines, "route": route,
		"opts": map[string]interface{}{"FontID": opts.FontID, "MaxLen": opts.MaxLen, "FontPath": fontPath}}
	if !useReal {
		cf := map[string]interface{}{}
		for _, f := range fonts {
			cf[f.id] = map[string]interface{}{"widths": f.widths, "maxLineLength": f.maxLen, "numLines": f.numLines, "cursorOverlapWidth": f.overlap}
		}
		details["fontConfig"] = map[string]interface{}{"defaultFontId": defaultFontID, "fonts": cf}
	}
	if res.Panic != nil {
		details["stack"] = res.Stack
		k.Violation("format-panic", fmt.Sprintf("compiling a well-formed format() call panicked: %v", res.Panic), details)
		return
	}
	if res.Err != nil {
		// Rejection of an intended-valid program is not a C07 violation; it is
		// counted and starves the run if frequent.
		k.Count("compiled_rejected", 1)
		k.Sample("rejected", map[string]interface{}{"source": src, "error": res.Err.Error()})
		// every generated call is well-formed (fonts exist, parameters are in their documented forms): rejecting
		// it formats nothing
		k.Violation("format-rejected", fmt.Sprintf("a well-formed format() call is rejected: %v\n source=%q", res.Err, src), details)
		return
	}
	k.Count("font_kind_"+target.kind, 1)
	k.Count("route_font_"+fontRoute, 1)
	k.Count("route_len_"+lenRoute, 1)
	k.Count("route_numLines_"+nlRoute, 1)
	k.Count("route_overlap_"+ovRoute, 1)
	if order != "" {
		k.Count("route_positional_"+strings.ReplaceAll(order, ",", "_then_"), 1)
	}
	if inline {
		k.Count("compiled_inline_msgbox", 1)
	} else {
		k.Count("compiled_text_statement", 1)
	}
	k.Count("compiled_host_"+host, 1)
	if strType != "" {
		k.Count("compiled_string_type_"+strType, 1)
	}
	if parts > 1 {
		k.Count("compiled_multi_part_literals", 1)
	}
	// read the emitted .string lines back
	var lines []string
	directive := "\t.string \""
	if strType != "" {
		directive = "\t." + strType + " \""
	}
	for _, ln := range strings.Split(res.Out, "\n") {
		if strings.HasPrefix(ln, directive) && strings.HasSuffix(ln, "\"") && len(ln) >= len(directive)+1 {
			lines = append(lines, ln[len(directive):len(ln)-1])
		}
	}
	details["emitted"] = res.Out
	if len(lines) == 0 {
		k.Violation("F1-no-text-emitted", "F1: the compiled program contains no line of the text's directive for the formatted text", details)
		return
	}
	value := strings.Join(lines, "\n")
	switch strType {
	case "", "braille":
		value = strings.TrimSuffix(value, "$")
	case "ascii":
		value = strings.TrimSuffix(value, "\\0")
	}
	details["output"] = value
	var o obs
	if fd := judge(toks, value, target, p, &o); fd != nil {
		k.Violation(fd.key, fmt.Sprintf("%s\n (intended parameters: font=%s maxLineLength=%d cursorOverlapWidth=%d numLines=%d; routes: %s)\n source=%q\n output=%q", fd.msg, target.id, p.max, p.overlap, p.numLines, route, src, value), details)
		return
	}
	countObs(k, &o)
	nontrivial(k, "compiled", toks, target, p, &o, route)
	if k.Index < 200 && o.inserted > 0 {
		k.Sample("compiled-"+fontRoute+"-"+lenRoute, map[string]interface{}{"source": src, "opts": details["opts"], "numLines": p.numLines, "cursorOverlapWidth": p.overlap, "maxLineLength": p.max, "emitted": res.Out})
	}
}

// ---------------------------------------------------------------------------
// Robustness sub-check: texts whose user-level meaning is ambiguous (lone
// backslashes, unbalanced braces, literal newlines, invalid UTF-8). Only
// "no panic, terminates" is asserted.

func robustCase(k *h.Case) {
	r := k.R
	atoms := []string{`\`, `\`, "n", "l", "p", "N", "x", "t", "{", "{", "}", "}", " ", " ", "  ", "\n", "a", "bc", "é", "あ", "{A}", "{B C}", `\n`, `\p`, `\N`, "\xff", "\xc3", "$", `"`}
	n := r.IntN(30)
	var sb strings.Builder
	for i := 0; i < n; i++ {
		sb.WriteString(h.Pick(r, atoms))
	}
	text := sb.String()
	p := params{max: r.IntN(200) - 5, overlap: r.IntN(30) - 2, numLines: r.IntN(6) - 1}
	fontID := "TEST"
	fc := parser.FontConfig{}
	if h.Chance(r, 0.5) {
		fontID = "f"
		fc = parser.FontConfig{DefaultFontID: "f", Fonts: map[string]parser.Fonts{"f": {Widths: map[string]int{"a": 3, " ": 2, "default": r.IntN(8), "{A}": 20, "\\": 4}}}}
	}
	k.SetSource(text)
	type ret struct {
		pan   interface{}
		stack string
	}
	done := make(chan ret, 1)
	go func() {
		_, _, pan, stack := callFormat(&fc, text, p, fontID)
		done <- ret{pan, stack}
	}()
	details := map[string]interface{}{"driver": "robust", "text": text, "font": fontID, "maxLineLength": p.max, "cursorOverlapWidth": p.overlap, "numLines": p.numLines}
	select {
	case x := <-done:
		k.Count("evaluations", 1)
		k.Count("texts_robustness", 1)
		if x.pan != nil {
			details["stack"] = x.stack
			k.Violation("robust-panic", fmt.Sprintf("FormatText panicked on %q: %v", text, x.pan), details)
		}
	case <-time.After(30 * time.Second):
		k.Violation("robust-hang", fmt.Sprintf("FormatText did not return within 30 s on %q", text), details)
	}
}

// ---------------------------------------------------------------------------

// copyWidths gives the compiler its own copy of a width table: the oracle must never read a map the code under
// test could have written to.
func copyWidths(m map[string]int) map[string]int {
	out := make(map[string]int, len(m))
	for k, v := range m {
		out[k] = v
	}
	return out
}

// Run is the C07 check.
func Run(ctx *h.Ctx) int {
	selfCheck(ctx)

	rf := &realFonts{}
	fc, err := parser.LoadFontConfig(filepath.Join(h.RepoDir, "font_config.json"))
	if err != nil || len(fc.Fonts) == 0 {
		ctx.Inconclusive("cannot load %s/font_config.json: %v", h.RepoDir, err)
	} else {
		rf.fc, rf.ok = fc, true
		for id := range fc.Fonts {
			rf.ids = append(rf.ids, id)
		}
		sort.Strings(rf.ids)
		// the oracle's width tables: decoded here with encoding/json, not taken from the code under test
		var raw struct {
			Fonts map[string]struct {
				Widths             map[string]int `json:"widths"`
				MaxLineLength      int            `json:"maxLineLength"`
				NumLines           int            `json:"numLines"`
				CursorOverlapWidth int            `json:"cursorOverlapWidth"`
			} `json:"fonts"`
		}
		b, rerr := os.ReadFile(filepath.Join(h.RepoDir, "font_config.json"))
		if rerr == nil {
			rerr = json.Unmarshal(b, &raw)
		}
		if rerr != nil {
			ctx.Inconclusive("cannot decode %s/font_config.json: %v", h.RepoDir, rerr)
			rf.ok = false
		}
		rf.widths = map[string]map[string]int{}
		rf.meta = map[string][3]int{}
		for id := range fc.Fonts {
			rf.widths[id] = raw.Fonts[id].Widths
			if rf.widths[id] == nil {
				rf.widths[id] = map[string]int{}
			}
			rf.meta[id] = [3]int{raw.Fonts[id].MaxLineLength, raw.Fonts[id].NumLines, raw.Fonts[id].CursorOverlapWidth}
		}
	}

	workDir := filepath.Join(h.VerifDir, ".work", "c07")
	if err := os.MkdirAll(workDir, 0o755); err != nil {
		ctx.Inconclusive("cannot create work directory %s: %v", workDir, err)
	}

	ctx.RunCases("direct", ctx.N(250000, 5000000), func(k *h.Case) { directCase(k, rf) })
	ctx.RunCases("compiled", ctx.N(25000, 150000), func(k *h.Case) { compiledCase(k, rf, workDir) })
	ctx.RunCases("robust", ctx.N(5000, 50000), robustCase)

	if ctx.OnlySub == "" {
		if rej, n := ctx.Counter("compiled_rejected"), ctx.Counter("texts_compiled"); n > 0 && rej*50 > n {
			ctx.Inconclusive("%d of %d intended-valid format() programs were rejected by the compiler (see samples)", rej, n)
		}
		// every kind of observation the property talks about must have been seen
		for _, c := range []string{"inserted_breaks_seen", "auto_N_seen", "paragraph_p_seen", "overlong_single_word_lines", "lines_exactly_at_limit",
			"prompt_lines_overlap_applied", "f4_minimality_checks", "font_kind_random", "font_kind_real", "font_kind_TEST",
			"route_font_pos", "route_font_named", "route_font_optsFontID", "route_font_cfgDefault",
			"route_len_pos", "route_len_named", "route_len_optsMaxLen", "route_len_cfg",
			"route_numLines_named", "route_numLines_cfg", "route_numLines_cfg-absent-2", "route_overlap_named", "route_overlap_cfg",
			"route_positional_font_then_len", "route_positional_len_then_font"} {
			if ctx.Counter(c) == 0 {
				ctx.Inconclusive("workload starved: counter %s is 0", c)
			}
		}
		os.Remove(workDir) // only succeeds when empty
	}

	return ctx.Finish(
		"texts are generated as token lists (words of 1..20 runes/{CONTROL CODES} from ASCII, multi-byte and control-code pools; explicit \\n \\l \\p \\N glued or spaced; runs of 1..3 spaces; leading/trailing spaces and breaks); "+
			"fonts: random width tables (widths 0..14, codes 0..120, with/without 'default' and ' '), the repository font_config.json, the built-in TEST font; maxLineLength is aimed at the exact width of a run of words +-1 px (or random / narrower than a word / wider than the text), numLines 1..7, cursorOverlapWidth 0..120; "+
			"driver 'direct' calls FontConfig.FormatText, driver 'compiled' compiles text/msgbox programs with format() parameters given positionally (both orders), by name, via a generated font config file, and via the parser's default font id / max length; "+
			"a case is non-trivial when the text has >= 2 words and at least one inserted or explicit break was observed; signature = driver, font kind, numLines, overlap>0, words-per-segment/break-code shape, inserted-break bucket, prompt/exact/overlong flags, parameter route",
		ctx.N(2000, 10000),
		[]string{
			"prompt line (F3, narrow reading): the line ends in \\p, or it ends in \\l (inserted, resolved from \\N, or explicit) as the last line of the box (breaks since paragraph start >= numLines-1) with further words following; an explicit \\l on an earlier line and an explicit \\n at the bottom of the box are not treated as prompt lines",
			"F4 grants the overlap under the wide reading (anything follows the moved word and the line is the last of the box or is followed by \\p or explicit \\l), so implementations between the two readings are accepted",
			"F4 judges the moved word as the last word of the hypothetical line (the greedy rule the property states); it does not ask whether all remaining words would have fitted without a prompt",
			"named parameters use values >= 1 (0/negative mean 'use the default' in this implementation); the TEST font is only used with an explicit length",
			"multi-part string literals are split only next to a space run or a break code, where the joined text has the same word list under any reading",
			"texts with lone backslashes, unbalanced/nested braces, literal newlines, invalid UTF-8, '\"' or '$' are excluded from the main campaign and only checked for 'no panic, terminates' (sub-check robust)",
			"a real newline in the result is accepted only directly after a break code (the .string line separator)",
		})
}
